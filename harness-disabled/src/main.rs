//! C16, statically disabled build: every public call is a no-op. Enumerates all call sequences up
//! to a length over the whole public API and checks after every call that no closure ran, no
//! reporter call happened, no thread appeared and every query returns None / empty.

use std::cell::Cell;
use std::future::Future;
use std::pin::Pin;
use std::sync::atomic::AtomicU64;
use std::sync::atomic::Ordering;
use std::task::Context;
use std::task::Poll;
use std::task::RawWaker;
use std::task::RawWakerVTable;
use std::task::Waker;

use fastrace::collector::Config;
use fastrace::collector::Reporter;
use fastrace::collector::SpanRecord;
use fastrace::future::FutureExt;
use fastrace::local::LocalCollector;
use fastrace::local::LocalParentGuard;
use fastrace::local::LocalSpans;
use fastrace::prelude::*;

static REPORTS: AtomicU64 = AtomicU64::new(0);

/// Counts heap allocations: a disabled `flush()` allocates nothing (starting a helper thread
/// would), whatever was called before it.
struct CountingAlloc;
static ALLOCS: AtomicU64 = AtomicU64::new(0);
unsafe impl std::alloc::GlobalAlloc for CountingAlloc {
    unsafe fn alloc(&self, l: std::alloc::Layout) -> *mut u8 {
        ALLOCS.fetch_add(1, Ordering::Relaxed);
        std::alloc::System.alloc(l)
    }
    unsafe fn dealloc(&self, p: *mut u8, l: std::alloc::Layout) {
        std::alloc::System.dealloc(p, l)
    }
}
#[global_allocator]
static GLOBAL: CountingAlloc = CountingAlloc;

/// `flush()` of the disabled build: no allocation, no thread.
fn inert_flush() -> Result<(), String> {
    let a0 = ALLOCS.load(Ordering::Relaxed);
    fastrace::flush();
    let n = ALLOCS.load(Ordering::Relaxed) - a0;
    if n != 0 {
        return Err(format!("flush() allocated {n} time(s) (a disabled flush does nothing; starting a thread allocates)"));
    }
    Ok(())
}

struct Counting;
impl Reporter for Counting {
    fn report(&mut self, _spans: Vec<SpanRecord>) {
        REPORTS.fetch_add(1, Ordering::SeqCst);
    }
}

thread_local! {
    static CLOSURES: Cell<u64> = const { Cell::new(0) };
    static BODY: Cell<u64> = const { Cell::new(0) };
}

fn hit() {
    CLOSURES.with(|c| c.set(c.get() + 1));
}

#[fastrace::trace(name = "traced", properties = { "k": "{a}" })]
fn traced(a: u32) -> u32 {
    BODY.with(|c| c.set(c.get() + 1));
    a + 1
}

#[fastrace::trace(enter_on_poll = true)]
async fn traced_async(a: u32) -> u32 {
    BODY.with(|c| c.set(c.get() + 1));
    a + 2
}

fn noop_waker() -> Waker {
    fn clone(_: *const ()) -> RawWaker {
        RawWaker::new(std::ptr::null(), &VTABLE)
    }
    fn noop(_: *const ()) {}
    static VTABLE: RawWakerVTable = RawWakerVTable::new(clone, noop, noop, noop);
    unsafe { Waker::from_raw(RawWaker::new(std::ptr::null(), &VTABLE)) }
}

fn poll_once<F: Future>(f: Pin<&mut F>) -> Option<F::Output> {
    let w = noop_waker();
    let mut cx = Context::from_waker(&w);
    match f.poll(&mut cx) {
        Poll::Ready(v) => Some(v),
        Poll::Pending => None,
    }
}

#[derive(Default)]
struct State {
    spans: Vec<Span>,
    guards: Vec<LocalParentGuard>,
    locals: Vec<LocalSpan>,
    collectors: Vec<LocalCollector>,
    sets: Vec<LocalSpans>,
}

const N_OPS: usize = 30;

fn op_name(i: usize) -> &'static str {
    [
        "Span::root(sampled).with_property",
        "Span::root(unsampled).with_properties",
        "Span::noop",
        "Span::enter_with_parent.with_property",
        "Span::enter_with_parents",
        "Span::enter_with_local_parent",
        "Span::set_local_parent",
        "Span::add_property",
        "Span::add_properties",
        "Span::add_event(Event.with_properties)",
        "Span::push_child_spans",
        "Span::elapsed",
        "Span::cancel",
        "SpanContext::from_span",
        "SpanContext::current_local_parent",
        "LocalSpan::enter_with_local_parent.with_property",
        "LocalSpan::add_property",
        "LocalSpan::add_properties",
        "LocalSpan::add_event",
        "LocalCollector::start",
        "LocalCollector::collect",
        "LocalSpans::to_span_records",
        "Event::add_to_parent",
        "Event::add_to_local_parent",
        "future.in_span polled",
        "future.enter_on_poll polled",
        "#[trace] fn",
        "#[trace] async fn",
        "flush",
        "set_reporter",
    ][i]
}

/// Executes one call; returns an error description if something observable happened.
#[allow(deprecated)]
fn step(st: &mut State, op: usize) -> Result<(), String> {
    match op {
        0 => st.spans.push(Span::root("r", SpanContext::random()).with_property(|| {
            hit();
            ("k", "v")
        })),
        1 => st.spans.push(Span::root("u", SpanContext::new(TraceId(7), SpanId(9)).sampled(false)).with_properties(|| {
            hit();
            [("k", "v")]
        })),
        2 => st.spans.push(Span::noop()),
        3 => {
            if let Some(p) = st.spans.last() {
                let c = Span::enter_with_parent("c", p).with_property(|| {
                    hit();
                    ("k", "v")
                });
                st.spans.push(c);
            }
        }
        4 => {
            let c = Span::enter_with_parents("m", st.spans.iter());
            st.spans.push(c);
        }
        5 => st.spans.push(Span::enter_with_local_parent("lc")),
        6 => {
            if let Some(p) = st.spans.last() {
                st.guards.push(p.set_local_parent());
            }
        }
        7 => {
            if let Some(p) = st.spans.last() {
                p.add_property(|| {
                    hit();
                    ("k", "v")
                });
            }
        }
        8 => {
            if let Some(p) = st.spans.last() {
                p.add_properties(|| {
                    hit();
                    [("k", "v"), ("k2", "v2")]
                });
            }
        }
        9 => {
            if let Some(p) = st.spans.last() {
                p.add_event(Event::new("e").with_properties(|| {
                    hit();
                    [("k", "v")]
                }));
            }
        }
        10 => {
            if let (Some(p), Some(s)) = (st.spans.last(), st.sets.last()) {
                p.push_child_spans(s.clone());
            }
        }
        11 => {
            if let Some(p) = st.spans.last() {
                if p.elapsed().is_some() {
                    return Err("Span::elapsed() is Some".into());
                }
            }
        }
        12 => {
            if let Some(p) = st.spans.last() {
                p.cancel();
            }
        }
        13 => {
            if let Some(p) = st.spans.last() {
                if SpanContext::from_span(p).is_some() {
                    return Err("SpanContext::from_span() is Some".into());
                }
            }
        }
        14 => {
            if SpanContext::current_local_parent().is_some() {
                return Err("SpanContext::current_local_parent() is Some".into());
            }
        }
        15 => st.locals.push(LocalSpan::enter_with_local_parent("l").with_property(|| {
            hit();
            ("k", "v")
        })),
        16 => LocalSpan::add_property(|| {
            hit();
            ("k", "v")
        }),
        17 => LocalSpan::add_properties(|| {
            hit();
            [("k", "v")]
        }),
        18 => LocalSpan::add_event(Event::new("le").with_property(|| {
            hit();
            ("k", "v")
        })),
        19 => st.collectors.push(LocalCollector::start()),
        20 => {
            if let Some(c) = st.collectors.pop() {
                st.sets.push(c.collect());
            }
        }
        21 => {
            if let Some(s) = st.sets.last() {
                if !s.to_span_records(SpanContext::random()).is_empty() {
                    return Err("to_span_records() is not empty".into());
                }
            }
        }
        22 => {
            if let Some(p) = st.spans.last() {
                Event::add_to_parent("dep", p, || {
                    hit();
                    [("k".into(), "v".into())]
                });
            }
        }
        23 => Event::add_to_local_parent("dep", || {
            hit();
            [("k".into(), "v".into())]
        }),
        24 => {
            let sp = st.spans.pop().unwrap_or_else(Span::noop);
            let mut f = Box::pin(async { 5u32 }.in_span(sp));
            if poll_once(f.as_mut()) != Some(5) {
                return Err("in_span changed the future's output".into());
            }
        }
        25 => {
            let mut f = Box::pin(async { 6u32 }.enter_on_poll("eop"));
            if poll_once(f.as_mut()) != Some(6) {
                return Err("enter_on_poll changed the future's output".into());
            }
        }
        26 => {
            let before = BODY.with(|c| c.get());
            if traced(1) != 2 || BODY.with(|c| c.get()) != before + 1 {
                return Err("#[trace] fn changed behaviour".into());
            }
        }
        27 => {
            let before = BODY.with(|c| c.get());
            let mut f = Box::pin(traced_async(1));
            if poll_once(f.as_mut()) != Some(3) || BODY.with(|c| c.get()) != before + 1 {
                return Err("#[trace] async fn changed behaviour".into());
            }
        }
        28 => inert_flush()?,
        29 => fastrace::set_reporter(Counting, Config::default().report_interval(std::time::Duration::from_millis(1))),
        _ => unreachable!(),
    }
    Ok(())
}

fn threads() -> usize {
    std::fs::read_dir("/proc/self/task").map(|d| d.count()).unwrap_or(0)
}

fn release(st: &mut State) {
    while let Some(l) = st.locals.pop() {
        drop(l);
    }
    while let Some(g) = st.guards.pop() {
        drop(g);
    }
    while let Some(c) = st.collectors.pop() {
        drop(c);
    }
    st.sets.clear();
    while let Some(s) = st.spans.pop() {
        drop(s);
    }
}

fn main() {
    let args: Vec<String> = std::env::args().collect();
    let max_len: usize = args.get(1).and_then(|s| s.parse().ok()).unwrap_or(3);
    let t0 = std::time::Instant::now();
    let base_threads = threads();
    let mut seqs: u64 = 0;
    let mut calls: u64 = 0;
    let mut violations: Vec<serde_json::Value> = Vec::new();
    let mut samples: Vec<String> = Vec::new();
    // all sequences of length 1..=max_len (odometer)
    for len in 1..=max_len {
        let mut idx = vec![0usize; len];
        'outer: loop {
            seqs += 1;
            let mut st = State::default();
            let c0 = CLOSURES.with(|c| c.get());
            let r0 = REPORTS.load(Ordering::SeqCst);
            let mut problem: Option<String> = None;
            for &op in &idx {
                calls += 1;
                let r = std::panic::catch_unwind(std::panic::AssertUnwindSafe(|| step(&mut st, op)));
                match r {
                    Err(_) => problem = Some(format!("{} panicked", op_name(op))),
                    Ok(Err(e)) => problem = Some(e),
                    Ok(Ok(())) => {}
                }
                if CLOSURES.with(|c| c.get()) != c0 {
                    problem = Some(format!("a property closure was invoked by {}", op_name(op)));
                }
                if problem.is_some() {
                    break;
                }
            }
            release(&mut st);
            if let Err(e) = inert_flush() {
                problem.get_or_insert(e);
            }
            if problem.is_none() && REPORTS.load(Ordering::SeqCst) != r0 {
                problem = Some("a reporter was called".into());
            }
            if problem.is_none() && threads() != base_threads {
                problem = Some(format!("thread count changed: {} -> {}", base_threads, threads()));
            }
            let text = idx.iter().map(|i| op_name(*i)).collect::<Vec<_>>().join(" ; ");
            if samples.len() < 3 && seqs % 1777 == 1 {
                samples.push(text.clone());
            }
            if let Some(p) = problem {
                if violations.len() < 5 {
                    violations.push(serde_json::json!({"sequence": text, "what": p}));
                }
            }
            // next sequence
            let mut k = len;
            loop {
                if k == 0 {
                    break 'outer;
                }
                k -= 1;
                idx[k] += 1;
                if idx[k] < N_OPS {
                    break;
                }
                idx[k] = 0;
            }
        }
    }
    // give a (wrongly) started background reporter thread time to show itself
    std::thread::sleep(std::time::Duration::from_millis(30));
    if REPORTS.load(Ordering::SeqCst) != 0 && violations.is_empty() {
        violations.push(serde_json::json!({"sequence": "(whole run)", "what": "a reporter was called"}));
    }
    if threads() != base_threads && violations.is_empty() {
        violations.push(serde_json::json!({"sequence": "(whole run)", "what": "a thread was started"}));
    }
    println!(
        "{}",
        serde_json::json!({
            "sequences": seqs,
            "calls": calls,
            "operations": N_OPS,
            "max_len": max_len,
            "violations": violations,
            "samples": samples,
            "wall_s": t0.elapsed().as_secs_f64(),
        })
    );
}
