#!/usr/bin/env python3
"""keep_seed.py <dir-name> <property> <out-dir> <caught-by (comma list)> <needs...>  -- files a confirmed seeded change under /verif/seeded/."""
import sys, os, shutil, json
name, prop, out, caught = sys.argv[1:5]
needs = " ".join(sys.argv[5:])
d = f"/verif/seeded/{name}"
os.makedirs(d, exist_ok=True)
shutil.copy(f"{out}/patch.diff", f"{d}/patch.diff")
for f in os.listdir(out):
    if f.startswith("demo") or f == "notes.md":
        shutil.copy(f"{out}/{f}", f"{d}/{f}")
meta = {
    "property": prop,
    "source": "independent sub-agent given only the property text and a scratch worktree",
    "needs_to_manifest": needs,
    "confirmed": "re-run by the harness author in the scratch worktree: existing suite 47/47 with the change; demonstration fails with the change and passes without it (tools/confirm_mutation.sh)",
    "checks_run": f"git -C /repo apply patch.diff; ./check <id> quick for {caught}; git -C /repo checkout -- . (tools/try_mutation.sh)",
    "caught_by": caught.split(","),
}
json.dump(meta, open(f"{d}/meta.json", "w"), indent=1)
print("kept", d)
