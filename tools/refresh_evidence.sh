#!/bin/bash
# refresh_evidence.sh [tier] -- runs every registered check on /repo's current tree (must be clean) so that
# evidence/ describes the unchanged tree; prints one line per check.
cd /verif; unset CARGO_TARGET_DIR
git -C /repo status --short | grep -q . && { echo "/repo dirty"; exit 2; }
T="${1:-quick}"
for i in $(seq -w 1 20); do
  t0=$(date +%s); out=$(./check C$i $T 2>&1); rc=$?
  echo "C$i $T exit=$rc $(( $(date +%s) - t0 ))s :: $(echo "$out" | grep -c '^KNOWN-FINDING') known :: $(echo "$out" | tail -1 | cut -c1-160)"
done
