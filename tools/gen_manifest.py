#!/usr/bin/env python3
"""Regenerates /verif/MANIFEST.json from the table below (run from /verif)."""
import json, subprocess

SCHED_NOTE = ("Trusted: rtrb push/pop, Arc counts, parking_lot mutexes and thread_local! are linearizable/correct; only sequentially "
              "consistent interleavings at the hook points are explored (no weak-memory effects); bounds as stated in the evidence file; "
              "the harness's reference model (plain Rust, no queues/cycles) defines the expected records.")

CHECKS = {
 "C01": ("SCHED", "model_checking", "4 (C01)",
         "Exhaustive enumeration of all schedules (preemption bound 2 quick / 3 thorough) of multi-threaded programs over the real fastrace code under a controlled scheduler, default configuration; every execution is compared with a reference model: each defined record delivered exactly once, by the final flush at the latest, and by the first cycle that began after it was finished. Bounded-exhaustive, not a proof: programs, threads and preemptions are bounded.",
         "stateless model checking: preemption-bounded DFS over schedules of the real code + reference-model oracle (incl. a bound on the drain passes of every collector cycle); the wall-clock clause is additionally observed on the free-running collector thread (deterministic scenarios, not an enumeration)"),
 "C03": ("SCHED", "model_checking", "4 (C03)",
         "All schedules up to the preemption bound of hand-off scenarios in the cancelable configuration; oracle: per trace one report call, not before the root finishes, containing everything that happens-before the root's finish (vector clocks over the program's hand-offs).",
         "stateless model checking: preemption-bounded DFS over schedules of the real code + happens-before oracle"),
 "C04": ("SCHED", "model_checking", "4 (C04)",
         "All schedules up to the preemption bound of cancel scenarios in both configurations; oracle: zero records of a cancelled trace in any report call, other traces complete, cancel on non-root/no-op spans and in the default configuration changes nothing (model ignores it there).",
         "stateless model checking: preemption-bounded DFS over schedules of the real code + reference-model oracle"),
 "C06": ("SCHED", "model_checking", "4 (C06)",
         "All schedules up to the preemption bound of attachment scenarios (by handle from another thread, through the local parent, at creation) in both configurations; oracle: every attachment exactly once on its target record, nowhere else, order per route preserved.",
         "stateless model checking: preemption-bounded DFS over schedules of the real code + reference-model oracle"),
 "C08": ("SCHED", "model_checking", "4 (C08)",
         "All schedules up to the preemption bound of every scenario in both configurations; oracle: collector_stats() (active collectors, buffered sets, parked attachments, registered receivers) returns to its pre-execution value once all traces ended and all threads exited.",
         "stateless model checking: preemption-bounded DFS over schedules of the real code + state-introspection oracle"),
 "C02": ("SEQ", "model_checking", "4 (C02)",
         "Bounded-exhaustive enumeration of well-scoped programs (span trees, nested scopes, multi-parent spans, two lock-step threads) x every placement of a collector cycle at a queue-push boundary x both configurations, on the real code; oracle: trace id, parent id (through the delivered record of the model's parent), multiplicity per parent, id distinctness.",
         "explicit enumeration of operation sequences x cycle placements against a reference model (stateless exploration of the real code)"),
 "C05": ("SEQ", "model_checking", "4 (C05)",
         "All generated programs mixing a sampled and an unsampled root (descendants through every propagation path, mixed parent sets in both orders, detached sets, attachments, a second thread) x cycle placements; oracle: no record outside the model's sampled items, every extracted context carries the right trace id / span / sampled flag.",
         "explicit enumeration of operation sequences x cycle placements against a reference model (stateless exploration of the real code)"),
 "C10": ("SEQ", "model_checking", "4 (C10)",
         "All well-nested sequences of scope-opening and -closing operations up to the stated depth on one and two threads; after every operation the local context is observed and probed (child span + local event) and compared with the model's scope stack: frame condition, thread isolation, inertness without a scope.",
         "explicit enumeration of operation sequences against a reference model (stateless exploration of the real code)"),
 "C11": ("SEQ", "model_checking", "4 (C11)",
         "All generated programs with from_span/current_local_parent extracted after every operation and remote child roots created from those contexts directly and through the traceparent codec, with boundary id values; oracle: context = (trace, delivered id of the named span, sampled), None exactly where the model has no trace, remote child delivered under that span.",
         "explicit enumeration of operation sequences against a reference model (stateless exploration of the real code)"),
 "C17": ("SEQ", "model_checking", "4 (C17)",
         "All captured local-span forests up to the stated size (open or closed, with attachments) pushed to up to 3 parents in 2 traces and converted with to_span_records, x cycle placements x both configurations; oracle: copies equal field by field, to_span_records equal to the delivered copy up to a common time offset, open spans closed at collection.",
         "explicit enumeration of operation sequences x cycle placements against a reference model (stateless exploration of the real code)"),
 "C18": ("SEQ", "model_checking", "4 (C18)",
         "All generated nestings up to the stated size with a busy-wait before every operation and harness-side clock brackets around every operation, x cycle placements; oracle: duration within [finish-start] brackets, begin time within the run window, child inside parent, siblings disjoint, events inside their span, elapsed() within brackets.",
         "explicit enumeration of operation sequences x cycle placements with clock-bracket oracle (stateless exploration of the real code)"),
 "C07": ("SEQ", "model_checking", "4 (C07)",
         "Every public call in hostile states: bounded-exhaustive call sequences over no-op / unsampled / all-no-op-parent / scope-less / local-collector states in three process states (no reporter, default, cancelable); every closure-taking call x calls issued from inside its closure; scope-stack, span-queue and ring limits; calls from thread-local destructors in every registration order; multi-threaded scenarios with the collector parked at each of its points. Oracle: no unwind out of any call (debug assertions on), no deadlock, no call that fails to return.",
         "explicit enumeration of call sequences and fault states on the real code; preemption-bounded schedule enumeration for the blocking clause"),
 "C09": ("SCHED", "model_checking", "4 (C09)",
         "Queue-full episodes on the real 10240-slot ring: fill leaving 0/1/2 slots, every sequence of operations during the episode, recovery interleaved with the collector's first pops, fresh trace after the drain; all schedules up to the preemption bound in both configurations; plus the per-scope span limit. Oracle: every call returns, missing records only where a submit hit the full ring, every delivered record correct, cancelled traces stay suppressed, collector state returns to baseline, fresh trace complete.",
         "stateless model checking: preemption-bounded DFS over schedules of the real code with fault (queue-full) injection through the public API"),
 "C13": ("SEQ", "model_checking", "4 (C13)",
         "All adapter programs up to the stated poll count (polling thread per poll, drop at every point, completed adapter kept alive, nesting, enter_on_poll with and without local parent) x every placement of collector cycles x both configurations; oracle: local context inside/after every poll, span record exists exactly from completion/drop, everything of the final poll in the trace (cancelable: in the root's batch), one enter_on_poll record per poll.",
         "explicit enumeration of poll sequences x cycle placements against a reference model (stateless exploration of the real code)"),
 "C14": ("SEQ", "model_checking", "4 (C14)",
         "Same for scripted Stream (items / Pending / None) and Sink (ready / send / flush / close with a pending close) call sequences, migration between two threads, drop at every point.",
         "explicit enumeration of call sequences x cycle placements against a reference model (stateless exploration of the real code)"),
 "C16": ("SEQ", "model_checking", "4 (C16)",
         "Disabled build (fastrace without `enable`, separate workspace so that no feature unification happens): all call sequences up to length 3 (4) over 30 public operations; after every call: no closure ran, no reporter call, no new thread, every query None/empty, #[trace] functions unchanged. Enabled build: generated call sequences over non-recording spans (no-op-derived, scope-less local operations) with every closure counted, run with a reporter and in a process that never installs one, plus a probe that creates spans before set_reporter and uses them afterwards.",
         "explicit enumeration of call sequences in both feature configurations against closure counters / reporter log / thread count / allocation count inside flush()"),
 "C12": ("INPUT", "exploration", "4 (C12)",
         "Bounded-exhaustive input enumeration: contexts over boundary lattices of 128-bit x 64-bit ids x sampled (encode form + decode round trip), every string up to length 5 (6) over a 9-symbol boundary alphabet and the product of per-field menus against an independent reference parser (None exactly where the statement requires it, the right value wherever Some), Display/FromStr/serde round trips of both id types. Exhaustive over the stated alphabets, not over all 2^193 contexts.",
         "exhaustive enumeration of a bounded input space against an independent reference decoder"),
 "C19": ("INPUT", "exploration", "4 (C19)",
         "Record batches over the product of field alphabets (ids with top bits, boundary strings, duplicate keys, events, boundary times), batches of <= 3 records, empty and 1000-record batches, driven through the public Reporter::report of each crate; the bytes are received on loopback (UDP, HTTP) or in a capturing SpanExporter and decoded by independent Thrift-compact / MessagePack decoders written for this harness; every field compared with the target format's image of the source.",
         "exhaustive enumeration of a bounded input space against independent wire-format decoders"),
 "C20": ("INPUT", "exploration", "4 (C20)",
         "All batches of <= 5 (6) spans over 5 size classes, boundary walks of single spans and pairs across the 8000-byte limit, long batches with oversize spans at front/middle/end; oracle: every datagram below 8000 bytes and well-formed, received span ids = input minus spans that do not fit alone (decided differentially), in order, none twice, report() returns within the deadline.",
         "exhaustive enumeration of a bounded input space with a differential oracle"),
 "C15": ("TWIN", "exploration", "4 (C15)",
         "Differential enumeration over a grid of twin functions generated from the same tokens with and without #[trace] (sync/async/enter_on_poll, generic, lifetimes, &self/&mut self/self, async_trait, native async-in-trait; default name / name= / short_name; literal, formatted and escaped properties; value, early return, ?, panic, &mut mutation, move, borrowed return, locals with Drop, nested annotated calls) x arguments {0,1,2} x pending polls {0,1,2} x {under a root, inside a local span, no local parent}: return value / error / panic payload and side-effect log must agree, and the annotated twin must record exactly the specified span (name, properties, parent) or nothing without a local parent.",
         "exhaustive enumeration of a fixed grid of twin programs x small argument domain with a differential oracle"),
}

props = [json.loads(l) for l in open("properties.jsonl")]
hooks_commits = subprocess.run(["git", "-C", "/repo", "log", "--format=%h %s", "--grep=verif hooks"], capture_output=True, text=True).stdout.strip().splitlines()

m = {
 "version": 1,
 "setup_cmd": "cd /verif/harness && CARGO_NET_OFFLINE=true cargo build --release --offline && cd /verif/harness-disabled && CARGO_NET_OFFLINE=true cargo build --release --offline",
 "hooks": {
   "guard": "fastrace_verif",
   "enable": "RUSTFLAGS=\"--cfg fastrace_verif\" (set for the harness workspace in /verif/harness/.cargo/config.toml; fastrace/Cargo.toml declares the cfg under [lints.rust] check-cfg)",
   "baseline_off_cmd": "cd /repo && cargo nextest run --workspace --no-fail-fast --offline || cargo test --workspace --no-fail-fast --offline",
   "source_commits": [c.split()[0] for c in hooks_commits],
   "add_only": True,
 },
 "engines": [
   {"name": "INPUT", "path": "harness/vx-codec, harness/vx-report", "serves_properties": ["C12", "C19", "C20"],
    "kind_free_text": "bounded-exhaustive input enumeration through the public API against independent reference decoders (traceparent parser, Thrift compact, MessagePack), loopback UDP/HTTP sinks, capturing OpenTelemetry exporter"},
   {"name": "TWIN", "path": "harness/vx-macro", "serves_properties": ["C15"],
    "kind_free_text": "differential execution of annotated/unannotated twin functions generated by one macro_rules expansion, over a small argument domain, with a capturing reporter"},
   {"name": "SCHED", "path": "harness/vx-core, harness/vx-sched", "serves_properties": sorted(k for k, v in CHECKS.items() if v[0] in ("SCHED", "SEQ")),
    "kind_free_text": "hand-rolled stateless model checker: real OS threads serialised by a baton, scheduling points from cfg(fastrace_verif) hooks in fastrace, depth-first enumeration of all schedules up to a preemption bound (or all interleavings for small sequential programs), reference model + oracles in plain Rust, 16 worker processes"},
 ],
 "checks": [],
 "not_applicable": [],
 "notes": "See DESIGN.md. Exit codes of every check: 0 held, 1 violation (VIOLATION line + replay file), 2 machinery failure.",
}
for p in props:
    i = p["id"]
    if i in CHECKS:
        eng, level, ref, text, tech = CHECKS[i]
        note = SCHED_NOTE if eng in ("SCHED", "SEQ") else "Trusted: the harness's own reference decoders/parsers (written independently of the code under test); loopback sockets deliver what was sent (UDP drop counter checked); bounds as stated in the evidence file."
        m["checks"].append({
            "property_id": i,
            "quick_cmd": f"./check {i} quick",
            "thorough_cmd": f"./check {i} thorough",
            "evidence_file": f"/verif/evidence/{i}.json",
            "replay_cmd_template": "./check replay {path}",
            "engine": eng,
            "level_claimed": {"category": level, "text": text, "design_ref": ref},
            "level_note": note,
            "technique": tech,
        })
    else:
        m["not_applicable"].append({"property_id": i, "reason": "not claimed"})
json.dump(m, open("MANIFEST.json", "w"), indent=1)
print("claimed:", [c["property_id"] for c in m["checks"]])
