#!/bin/bash
# confirm_mutation.sh <ID> [extra rustflags]  -- re-confirms a seeded change in its scratch worktree /tmp/mut-<ID>:
#   suite passes with the change; demo fails with it; demo passes without it.
ID="$1"; FLAGS="${2:-}"
W=/tmp/mut-$ID; O=/tmp/mut-$ID-out
cd "$W" || exit 2
git checkout -q -- . ; rm -f fastrace/tests/demo_mutation.rs
export CARGO_TARGET_DIR=$W/target CARGO_NET_OFFLINE=true RUST_BACKTRACE=0
git apply "$O/patch.diff" || { echo "patch does not apply"; exit 2; }
echo "--- suite with the change"
cargo nextest run --workspace --no-fail-fast --offline 2>&1 | grep -E "Summary|FAIL" | head -5
cp "$O/demo_mutation.rs" fastrace/tests/demo_mutation.rs
echo "--- demo with the change (expect failure)"
RUSTFLAGS="$FLAGS" CARGO_TARGET_DIR=$W/target-demo cargo test -p fastrace@0.7.9 --test demo_mutation --offline -- --test-threads=1 2>&1 | grep -E "^test result|^test .* (ok|FAILED)" | head -8
git apply -R "$O/patch.diff"
echo "--- demo without the change (expect pass)"
RUSTFLAGS="$FLAGS" CARGO_TARGET_DIR=$W/target-demo cargo test -p fastrace@0.7.9 --test demo_mutation --offline -- --test-threads=1 2>&1 | grep -E "^test result|^test .* (ok|FAILED)" | head -8
rm -f fastrace/tests/demo_mutation.rs
git status --short | head -3
