#!/bin/bash
# confirm_mutation.sh <ID> [crate (default fastrace)] [extra cargo test args] -- re-confirms a seeded change in /tmp/mut-<ID>:
#   suite passes with the change; demo fails with it; demo passes without it.  Env: DEMO_RUSTFLAGS
ID="$1"; CRATE="${2:-fastrace}"; EXTRA="${3:-}"
W=/tmp/mut-$ID; O=/tmp/mut-$ID-out
cd "$W" || exit 2
git checkout -q -- . ; rm -f */tests/demo_mutation*.rs
unset CARGO_TARGET_DIR
export CARGO_NET_OFFLINE=true RUST_BACKTRACE=0
git apply "$O/patch.diff" || { echo "patch does not apply"; exit 2; }
echo "--- suite with the change"
CARGO_TARGET_DIR=$W/target cargo nextest run --workspace --no-fail-fast --offline 2>&1 | grep -E "Summary|FAIL" | head -5
cp "$O"/demo_mutation*.rs $CRATE/tests/ 2>/dev/null || { mkdir -p $CRATE/tests; cp "$O"/demo_mutation*.rs $CRATE/tests/; }
TESTS=$(cd $CRATE/tests && ls demo_mutation*.rs | sed 's/\.rs$//' | sed 's/^/--test /' | tr '\n' ' ')
run() { (cd $CRATE && RUSTFLAGS="${DEMO_RUSTFLAGS:-}" CARGO_TARGET_DIR=$W/target-demo timeout 300 cargo test $TESTS --offline $EXTRA -- --test-threads=1 2>&1 | grep -E "^test result|^test .* (ok|FAILED)|^error" | head -8); }
echo "--- demo with the change (expect failure)"; run
git apply -R "$O/patch.diff"
echo "--- demo without the change (expect pass)"; run
rm -f */tests/demo_mutation*.rs
git status --short | grep -v target | head -3
