#!/bin/bash
# regress_seeds.sh [pattern] -- applies every kept seeded change to /repo in turn and runs the quick check of
# the first property listed in its meta.json "caught_by"; prints one line per seed. /repo must be clean.
# ONLY="C04 C06 R17": only seeds whose check id or name prefix is in the list.
cd /verif
unset CARGO_TARGET_DIR
SAVE=$(mktemp -d); cp -a /verif/evidence "$SAVE/evidence"; cp -a /verif/replays "$SAVE/replays" 2>/dev/null
for d in seeded/*${1:-}*/; do
  n=$(basename "$d")
  c=$(python3 -c "import json;print(json.load(open('$d/meta.json'))['caught_by'][0])")
  if [ -n "$ONLY" ]; then keep=0; for o in $ONLY; do case "$n" in $o*) keep=1;; esac; [ "$c" = "$o" ] && keep=1; done; [ $keep = 1 ] || continue; fi
  git -C /repo status --short | grep -q . && { echo "/repo dirty"; exit 2; }
  git -C /repo apply "/verif/$d/patch.diff" 2>/dev/null || { echo "$n: PATCH DOES NOT APPLY"; continue; }
  t0=$(date +%s)
  out=$(timeout 1200 ./check $c quick 2>&1); rc=$?
  git -C /repo checkout -- .
  echo "$n: $c exit=$rc violations=$(echo "$out" | grep -c '^VIOLATION') $(( $(date +%s) - t0 ))s"
done
rm -rf /verif/evidence /verif/replays; mv "$SAVE/evidence" /verif/evidence; [ -d "$SAVE/replays" ] && mv "$SAVE/replays" /verif/replays; rmdir "$SAVE" 2>/dev/null
