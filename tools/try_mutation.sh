#!/bin/bash
# try_mutation.sh <patch> <check ids...>  -- applies the patch to /repo, runs the quick checks, reverts.
P="$1"; shift
cd /repo && git status --short | grep -q . && { echo "/repo is dirty"; exit 2; }
git -C /repo apply "$P" || exit 2
# evidence/ and replays/ describe the unchanged tree: keep them out of reach of runs against a seeded change
SAVE=$(mktemp -d); cp -a /verif/evidence "$SAVE/evidence"; cp -a /verif/replays "$SAVE/replays" 2>/dev/null
for c in "$@"; do
  T="${TIER:-quick}"
  OUT=$(cd /verif && ./check $c $T 2>&1)
  echo "$c: exit=$? violations=$(echo "$OUT" | grep -c '^VIOLATION')  $(echo "$OUT" | grep -A1 '^VIOLATION' | grep -v '^VIOLATION' | grep -v '^--' | head -2 | cut -c1-220 | tr '\n' '|')"
done
git -C /repo checkout -- .
rm -rf /verif/evidence /verif/replays; mv "$SAVE/evidence" /verif/evidence; [ -d "$SAVE/replays" ] && mv "$SAVE/replays" /verif/replays; rmdir "$SAVE" 2>/dev/null
git -C /repo status --short | head -2
