#!/usr/bin/env python3
"""Regenerates /verif/known_findings.json (run from /verif). The file is committed; checks only read it."""
import json
entries = []
def fixed(prop, commit, what):
    entries.append({"status": "fixed", "property": prop, "commit": commit, "what": what})
def known(prop, rule, what, desc, program="*", config="any"):
    entries.append({"status": "known", "property": prop, "rule": rule, "what": what, "program": program, "config": config, "description": desc})

fixed("C01", "51de748", "lost root/span/local-span record: the collector found a thread's ring empty, the thread then pushed its last commands and exited, and the receiver was dropped with the commands still inside (scenario S1 and all others, default configuration, preemption bound 2)")
fixed("C03", "d3dd723", "root record never delivered / span finished before the root missing from the trace: the collector drained the per-thread queues one after another and processed a commit (or a submit) without the start / submit that happened before it on another thread (scenarios S2+w, S3b+w, S5b+w, S8+w, S20+w, cancelable configuration, preemption bound 2)")
fixed("C04", "d3dd723", "root record of a cancelled trace delivered: the finish on thread B was drained in an earlier cycle than the cancel issued before it on thread A (scenario S12+w, cancelable configuration, preemption bound 2)")
fixed("C06", "d3dd723", "property/event attached by handle on thread B lost: it was drained one cycle after the record of the span it was attached to, although the attachment happened before the span finished (scenarios S19+w, S19r+w, both configurations, preemption bound 2)")
fixed("C08", "d3dd723", "per-trace collector entry retained after the trace ended: the trace's start was drained one cycle after its commit (scenario S2+w, both configurations, preemption bound 2)")
fixed("C02", "d4c4f6a", "lost local-span record: Span::enter_with_parents with only no-op parents built a live span with an empty parent set; set as local parent it opened a scope that swallowed the local spans recorded in it (generated program: noop, child<[noop,noop]>, root, scope(root)(scope(child)(l0)))")
fixed("C04", "816276e", "event/property lost in the default configuration: cancel() removed the trace's parked attachments although cancelable was not set (generated programs C04-seq: root, add_event(root), cancel(root), finish(root))")

fixed("C09", "865fae9", "span record of a cancelled trace delivered after a queue-full episode: cancel and finish were parked in the overflow list and replayed last-in-first-out, and a collector cycle fell between the replayed commit and the replayed cancel (C09-ring: fill(leave=0), cancel(root), finish(root), cancelable configuration, preemption bound 2)")
fixed("C13", "70ebd79", "local spans recorded in the final poll of fut.in_span(root) missing from the trace: the adapter finished (committed) the root while the local-parent guard of that poll was still alive, so the poll's local spans were submitted after the commit (C13-root programs, cancelable configuration, collector cycle between the two)")
fixed("C14", "70ebd79", "same for the stream adapter at Ready(None) and the sink adapter at poll_close (C14-stream / C14-sink programs, cancelable configuration)")
fixed("C07", "4eb6543", "BorrowMutError panic: LocalSpan::with_properties / LocalSpan::add_properties ran the user's closure while the thread's span stack was mutably borrowed; any tracing call inside the closure panicked (C07-reentrant programs)")
fixed("C07", "ab07ac6", "debug assertion `token.is_some()` failed in LocalParentGuard::drop for a scope opened beyond the 4096-scope limit (C07-scopes programs)")
fixed("C07", "7d7d7a3", "panic 'cannot access a Thread Local Storage value during or after destruction' from Span::root / SpanContext::random / TraceId::random / SpanId::random / the first local span of a thread when called from a thread-local destructor that runs after rand's thread-local generator was destroyed (C07-teardown programs)")
fixed("C15", "6de71ac", "side effects lost: #[trace] on a plain function whose tail expression is Box::pin(async move { .. }) took the function for async-trait output and replaced the whole body by the instrumented pinned future; every statement before the tail was dropped (twin `boxed_move`: log 'setup:0' missing in the annotated function)")
fixed("C01", "3ff9a2c", "a collector cycle (and flush(), and the periodic report) never ends while threads keep tracing: the drain passes introduced by d3dd723 were repeated until one found nothing new (liveness rule: more drain passes in one cycle than commands on their way when it began; scenarios S2+w, S8, C01-conc, ...; 12 busy threads: flush() does not return within 10 s in a debug build)")
fixed("C07", "3ff9a2c", "same defect seen through C07: flush() waits for one collector cycle, and that cycle did not end while other threads kept sending commands (scenarios S13+w and others)")

# K1: attachments to a span that has several parents in ONE trace
K1 = ("attachment to a span created with several parents that belong to the same trace: the span is delivered once per parent, "
      "but all copies of the attachment are mounted on the first copy and none on the others (mount_danglings removes the entry "
      "for the span id at the first record). No small safe repair: the collector keys parked attachments by span id only.")
for prop in ["C04", "C05", "C06", "C10", "C17"]:
    for kind in ["property", "event"]:
        for route in ["by handle", "through the local parent"]:
            known(prop, "attach", f"{kind} lost ({route}) on a span with several parents in one trace", K1)
        known(prop, "attach", f"{kind} on a record it was not attached to (or twice) on a span with several parents in one trace", K1)

# K1 also shows when one captured set is pushed to two parents that belong to the same trace: the
# copies carry the same span ids, so the first copy's records take all parked attachments.
for prop in ["C17", "C05", "C10"]:
    for kind in ["properties", "events"]:
        known(prop, "sets", f"copies of a local-span set pushed to two parents of one trace have different {kind}", K1)

# K2: order of attachments made through nested local-parent scopes of the same span
K2 = ("the same span set as local parent twice, nested, on one thread: attachments made in the inner scope are submitted when the inner "
      "scope ends, i.e. before earlier attachments made in the outer scope, and are delivered in that order. Repair would need the "
      "collector to order parked attachments by time; properties carry no timestamp.")
known("C06", "attach-order", "attachments made through the local parent delivered out of issue order (the later one was submitted first: nested scopes of one span)", K2)

# K3: a cancel() parked in the overflow list of a thread that then goes quiet
K3 = ("cancel() called while the calling thread's command ring is full is parked in that thread's overflow list, which only the thread itself "
      "replays (at its next command or when it exits). If the thread issues no further command and the cancelled root is finished by ANOTHER "
      "thread, the commit reaches the collector while the cancel is still parked, and the trace is delivered. History: A fills its ring, "
      "cancel(r1) on A, a collector cycle empties the ring, A idles (alive), B finishes r1, cycle -> r1 and its child are reported. With one "
      "ordinary command on A after the cycle the cancel is replayed in time (family C04-ring-remote-finish, which passes). No small safe "
      "repair: the overflow list is private to the sending thread; the collector would have to be able to drain it.")
known("C04", "cancel", "root record of a cancelled trace delivered", K3, program="C04-ring-remote-idle*", config="cancelable")
known("C04", "cancel", "span record of a cancelled trace delivered", K3, program="C04-ring-remote-idle*", config="cancelable")

json.dump({"entries": entries}, open("known_findings.json", "w"), indent=1)
print(len(entries), "entries")
