use std::collections::HashSet;

use vx_core::explore::*;
use vx_core::program::*;

fn main() {
    let args: Vec<String> = std::env::args().collect();
    let bound: u32 = args.get(1).map(|s| s.parse().unwrap()).unwrap_or(2);
    let cancelable = args.get(2).map(|s| s == "c").unwrap_or(false);
    init_process(cancelable);
    let prog = Program::new("S1")
        .worker(
            "A",
            vec![
                Op::Root { slot: 0, name: "r".into(), trace: U128(1), remote_parent: 0, sampled: true, props: vec![] },
                Op::Finish { slot: 0 },
            ],
        )
        .collector(2, false, 0);
    let mut states = HashSet::new();
    let t0 = std::time::Instant::now();
    let mut lost = 0;
    let mut outcomes = std::collections::HashMap::new();
    let st = explore(
        &prog,
        &ExploreCfg { bound: Some(bound), max_execs: 1_000_000, deadline: None },
        vec![],
        &mut states,
        |ex| {
            let n: usize = ex.batches.iter().map(|b| b.records.len()).sum();
            *outcomes.entry((n, format!("{:?}", ex.outcome), ex.stats_final)).or_insert(0u64) += 1;
            if n != 1 {
                lost += 1;
                if lost == 1 {
                    println!("first loss: choices {:?}", ex.choices);
                    for (a, p) in &ex.steps {
                        println!("  {} {}", a, p.tag());
                    }
                }
            }
            true
        },
    );
    println!("{st:?} states={} lost={lost} wall={:?}", states.len(), t0.elapsed());
    println!("{outcomes:?}");
}
