fn main() {
    let args: Vec<String> = std::env::args().collect();
    let code = match args.get(1).map(|s| s.as_str()) {
        Some("worker") => {
            vx_core::check::worker_main();
            0
        }
        Some("check") => {
            let prop = args.get(2).expect("property id");
            let tier = args.get(3).map(|s| s.as_str()).unwrap_or("quick");
            match vx_core::plans::plan(prop, tier) {
                Some(spec) => vx_core::check::run_check(spec),
                None => {
                    eprintln!("no plan for {prop}");
                    2
                }
            }
        }
        Some("plan") => {
            let prop = args.get(2).expect("property id");
            let tier = args.get(3).map(|s| s.as_str()).unwrap_or("quick");
            let spec = vx_core::plans::plan(prop, tier).expect("plan");
            let n: usize = spec.jobs.iter().map(|j| j.programs.len()).sum();
            println!("{} jobs, {} program x config items; {}", spec.jobs.len(), n, spec.rule_text);
            if let Some(k) = args.get(4).and_then(|s| s.parse::<usize>().ok()) {
                for j in spec.jobs.iter().step_by((spec.jobs.len() / k).max(1)) {
                    println!("  {}", j.programs[j.programs.len() / 2].short());
                }
            }
            0
        }
        Some("replay") => vx_core::check::replay_main(args.get(2).expect("replay file")),
        _ => {
            eprintln!("usage: vx-sched check <ID> <quick|thorough> | replay <file> | worker");
            2
        }
    };
    std::process::exit(code);
}
