fn main() {
    let args: Vec<String> = std::env::args().collect();
    let code = match args.get(1).map(|s| s.as_str()) {
        Some("worker") => {
            vx_core::check::worker_main();
            0
        }
        Some("check") => {
            let prop = args.get(2).expect("property id");
            let tier = args.get(3).map(|s| s.as_str()).unwrap_or("quick");
            match vx_core::plans::plan(prop, tier) {
                Some(spec) => vx_core::check::run_check(spec),
                None => {
                    eprintln!("no plan for {prop}");
                    2
                }
            }
        }
        Some("plan") => {
            let prop = args.get(2).expect("property id");
            let tier = args.get(3).map(|s| s.as_str()).unwrap_or("quick");
            let spec = vx_core::plans::plan(prop, tier).expect("plan");
            let n: usize = spec.jobs.iter().map(|j| j.programs.len()).sum();
            println!("{} jobs, {} program x config items; {}", spec.jobs.len(), n, spec.rule_text);
            let mut fam: std::collections::BTreeMap<String, usize> = Default::default();
            for j in &spec.jobs {
                for p in &j.programs {
                    *fam.entry(p.name.split(['#', '/']).next().unwrap_or("").to_string()).or_default() += 1;
                }
            }
            println!("families: {fam:?}");
            println!("exhaustive_claim: {}; {}", spec.exhaustive_claim, spec.assumptions.iter().filter(|a| a.starts_with("NOT exhaustive")).cloned().collect::<Vec<_>>().join("; "));
            if let Some(k) = args.get(4).and_then(|s| s.parse::<usize>().ok()) {
                for j in spec.jobs.iter().step_by((spec.jobs.len() / k).max(1)) {
                    println!("  {} {}", j.programs[j.programs.len() / 2].name, j.programs[j.programs.len() / 2].short());
                }
            }
            0
        }
        Some("run1") => {
            // run1 <prop> <tier> <program-name> [bound|none]: explore one program in this process
            let prop = args.get(2).expect("property id");
            let tier = args.get(3).expect("tier");
            let name = args.get(4).expect("program name");
            let spec = vx_core::plans::plan(prop, tier).expect("plan");
            let cancelable = args.get(6).map_or(false, |s| s == "c");
            let mut found = None;
            for j in &spec.jobs {
                if j.cancelable != cancelable {
                    continue;
                }
                for p in &j.programs {
                    if &p.name == name {
                        found = Some((j.clone(), p.clone()));
                    }
                }
            }
            let (mut job, p) = found.expect("no such program in the plan");
            job.programs = vec![p.clone()];
            if let Some(b) = args.get(5) {
                job.bound = b.parse().ok();
            }
            println!("{}", p.short());
            let res = vx_core::check::run_job(&job);
            println!("executions {} transitions {} outcomes {} capped {} aborted {:?}", res.executions, res.transitions, res.outcomes.len(), res.capped, res.aborted);
            for g in &res.findings {
                println!("  {} / {} x{} reproduced={} choices={:?}: {}", g.finding.rule, g.finding.what, g.count, g.reproduced, g.choices, g.finding.detail);
            }
            for m in &res.machinery {
                println!("  MACHINERY {m}");
            }
            if let Some(s) = &res.sample {
                println!("  sample: {s}");
            }
            0
        }
        Some("ucount") => {
            for quick in [true, false] {
                let g = vx_core::plans::universal(quick);
                let n = vx_core::gen::generate(&g, 50_000_000, &mut |_| true);
                println!("universal family quick={quick}: {n} programs");
            }
            0
        }
        Some("freerun-during") => freerun_during(
            args.get(2).and_then(|s| s.parse().ok()).unwrap_or(10),
            args.get(3).and_then(|s| s.parse().ok()).unwrap_or(0),
        ),
        Some("freerun") => freerun(args.get(2).and_then(|s| s.parse().ok()).unwrap_or(10)),
        Some("replay") => vx_core::check::replay_main(args.get(2).expect("replay file")),
        _ => {
            eprintln!("usage: vx-sched check <ID> <quick|thorough> | replay <file> | worker");
            2
        }
    };
    std::process::exit(code);
}

/// C01's wall-clock clause, observed (not enumerated): with the library's own background thread
/// running at the given report interval and nobody calling flush(), every finished span shows up
/// within a generous multiple of the interval. Prints one JSON object.
fn freerun(interval_ms: u64) -> i32 {
    use fastrace::collector::Config;
    use fastrace::collector::Reporter;
    use fastrace::prelude::*;
    use std::sync::atomic::AtomicU64;
    use std::sync::atomic::Ordering;
    use std::sync::Arc;
    use std::time::Duration;
    use std::time::Instant;
    struct Count(Arc<AtomicU64>, Arc<AtomicU64>);
    impl Reporter for Count {
        fn report(&mut self, spans: Vec<SpanRecord>) {
            self.0.fetch_add(spans.len() as u64, Ordering::SeqCst);
            self.1.fetch_add(1, Ordering::SeqCst);
        }
    }
    let n = Arc::new(AtomicU64::new(0));
    let calls = Arc::new(AtomicU64::new(0));
    fastrace::set_reporter(Count(n.clone(), calls.clone()), Config::default().report_interval(Duration::from_millis(interval_ms)));
    let mut worst = Duration::ZERO;
    let mut expected = 0u64;
    let rounds = 20;
    let deadline = Duration::from_millis(interval_ms * 20 + 500);
    let mut late = 0;
    for round in 0..rounds {
        // a root with a child finished on a thread that exits at once, a local scope, and a
        // multi-parent span
        let root = Span::root("r", SpanContext::new(TraceId(1000 + round), SpanId(0)));
        let child = Span::enter_with_parent("c", &root);
        std::thread::spawn(move || drop(child)).join().unwrap();
        {
            let _g = root.set_local_parent();
            let _l = LocalSpan::enter_with_local_parent("l");
        }
        drop(root);
        expected += 3;
        let t0 = Instant::now();
        while n.load(Ordering::SeqCst) < expected && t0.elapsed() < deadline {
            std::thread::sleep(Duration::from_micros(200));
        }
        if n.load(Ordering::SeqCst) < expected {
            late += 1;
            // give up on this round's records
            expected = n.load(Ordering::SeqCst);
        }
        worst = worst.max(t0.elapsed());
    }
    // (informational only: whether the reporter is invoked when nothing was collected is not
    // something the property fixes)
    let c0 = calls.load(Ordering::SeqCst);
    std::thread::sleep(Duration::from_millis(interval_ms * 10 + 100));
    let idle_calls = calls.load(Ordering::SeqCst) - c0;
    // Spans that finish while the collector thread is in the middle of a cycle: one fresh process per
    // variant (a process in which set_reporter was called more than once has several collector
    // threads, which cover for one another).
    let during_cycle_missing: u64 = (0..3u64)
        .map(|variant| {
            let out = std::process::Command::new(std::env::current_exe().unwrap())
                .args(["freerun-during", &interval_ms.to_string(), &variant.to_string()])
                .output();
            match out {
                Ok(o) => String::from_utf8_lossy(&o.stdout).trim().parse::<u64>().unwrap_or(99),
                Err(_) => 99,
            }
        })
        .sum();
    // Replacing the reporter at run time: spans that finish while the old reporter is being torn
    // down are not lost; they reach the new reporter.
    let replaced_missing = {
        use std::sync::mpsc;
        struct Old {
            go: mpsc::Sender<()>,
            ack: mpsc::Receiver<()>,
        }
        impl Reporter for Old {
            fn report(&mut self, _spans: Vec<SpanRecord>) {}
        }
        impl Drop for Old {
            fn drop(&mut self) {
                // while this reporter goes away a worker finishes its spans
                let _ = self.go.send(());
                let _ = self.ack.recv_timeout(Duration::from_secs(2));
                std::thread::sleep(Duration::from_millis(60));
            }
        }
        let (go_tx, go_rx) = mpsc::channel();
        let (ack_tx, ack_rx) = mpsc::channel();
        fastrace::set_reporter(Old { go: go_tx, ack: ack_rx }, Config::default().report_interval(Duration::from_millis(interval_ms.max(1))));
        let worker = std::thread::spawn(move || {
            let root = Span::root("replace.r", SpanContext::new(TraceId(7777), SpanId(0)));
            let child = Span::enter_with_parent("replace.c", &root);
            let _ = go_rx.recv_timeout(Duration::from_secs(5));
            {
                let _g = root.set_local_parent();
                let _l = LocalSpan::enter_with_local_parent("replace.l");
            }
            drop(child);
            drop(root);
            let _ = ack_tx.send(());
        });
        let n2 = Arc::new(AtomicU64::new(0));
        let c2 = Arc::new(AtomicU64::new(0));
        fastrace::set_reporter(Count(n2.clone(), c2.clone()), Config::default().report_interval(Duration::from_millis(interval_ms.max(1))));
        worker.join().unwrap();
        fastrace::flush();
        std::thread::sleep(Duration::from_millis(50));
        fastrace::flush();
        3u64.saturating_sub(n2.load(Ordering::SeqCst))
    };
    println!(
        "{}",
        serde_json::json!({"interval_ms": interval_ms, "rounds": rounds, "rounds_not_delivered_in_time": late, "deadline_ms": deadline.as_millis() as u64, "worst_latency_ms": worst.as_secs_f64() * 1000.0, "idle_report_calls_in_10_intervals": idle_calls, "spans_finished_during_a_cycle_and_not_delivered_afterwards": during_cycle_missing, "spans_lost_while_the_reporter_was_replaced": replaced_missing})
    );
    if late > 0 || during_cycle_missing > 0 || replaced_missing > 0 {
        1
    } else {
        0
    }
}

/// One variant of "a span finishes while the collector thread is inside a slow report(), then the
/// program goes quiet": set_reporter is called exactly once in this process. Prints the number of
/// records that were not delivered in time.
fn freerun_during(interval_ms: u64, only_variant: u64) -> i32 {
    use fastrace::collector::Config;
    use fastrace::collector::Reporter;
    use fastrace::collector::SpanRecord;
    use fastrace::prelude::*;
    use std::sync::atomic::AtomicU64;
    use std::sync::atomic::Ordering;
    use std::sync::Arc;
    use std::time::Duration;
    use std::time::Instant;
    let deadline = Duration::from_millis(interval_ms * 20 + 500);
    let missing: u64 =
    // Spans that finish while the collector thread is in the middle of a cycle (inside a slow
    // report()), after which the program goes quiet: they are delivered by a later cycle of the
    // collector thread, with no flush() and no further tracing call to wake it up.
    {
        use std::sync::mpsc;
        struct Slow {
            seen: Arc<AtomicU64>,
            inside: mpsc::Sender<()>,
            hold: Duration,
        }
        impl Reporter for Slow {
            fn report(&mut self, spans: Vec<SpanRecord>) {
                if spans.iter().any(|s| s.name == "during.first") {
                    let _ = self.inside.send(());
                    std::thread::sleep(self.hold);
                }
                self.seen.fetch_add(spans.iter().filter(|s| s.name.starts_with("during.second")).count() as u64, Ordering::SeqCst);
            }
        }
        let mut missing = 0u64;
        for variant in only_variant..only_variant + 1 {
            let seen = Arc::new(AtomicU64::new(0));
            let (tx, rx) = mpsc::channel();
            fastrace::set_reporter(
                Slow { seen: seen.clone(), inside: tx, hold: Duration::from_millis(interval_ms * 4 + 60) },
                Config::default().report_interval(Duration::from_millis(interval_ms.max(1))),
            );
            drop(Span::root("during.first", SpanContext::new(TraceId(8800 + variant as u128), SpanId(0))));
            if rx.recv_timeout(Duration::from_secs(5)).is_err() {
                missing += 1;
                continue;
            }
            // the collector thread is inside report() now
            let want = match variant {
                // finished on this (long-lived, already registered) thread
                0 => {
                    drop(Span::root("during.second", SpanContext::new(TraceId(8900), SpanId(0))));
                    1
                }
                // finished on a thread that traces for the first time and exits at once
                1 => {
                    std::thread::spawn(|| drop(Span::root("during.second", SpanContext::new(TraceId(8901), SpanId(0))))).join().unwrap();
                    1
                }
                // a root with a local span, root handed to another thread
                _ => {
                    let root = Span::root("during.second", SpanContext::new(TraceId(8902), SpanId(0)));
                    {
                        let _g = root.set_local_parent();
                        let _l = LocalSpan::enter_with_local_parent("during.second.l");
                    }
                    std::thread::spawn(move || drop(root)).join().unwrap();
                    2
                }
            };
            let t0 = Instant::now();
            while seen.load(Ordering::SeqCst) < want && t0.elapsed() < deadline + Duration::from_millis(interval_ms * 4 + 60) {
                std::thread::sleep(Duration::from_micros(500));
            }
            missing += want - seen.load(Ordering::SeqCst).min(want);
        }
        missing
    };

    println!("{missing}");
    (missing > 0) as i32
}
