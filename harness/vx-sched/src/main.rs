fn main() {
    let args: Vec<String> = std::env::args().collect();
    let code = match args.get(1).map(|s| s.as_str()) {
        Some("worker") => {
            vx_core::check::worker_main();
            0
        }
        Some("check") => {
            let prop = args.get(2).expect("property id");
            let tier = args.get(3).map(|s| s.as_str()).unwrap_or("quick");
            match vx_core::plans::plan(prop, tier) {
                Some(spec) => vx_core::check::run_check(spec),
                None => {
                    eprintln!("no plan for {prop}");
                    2
                }
            }
        }
        Some("replay") => vx_core::check::replay_main(args.get(2).expect("replay file")),
        _ => {
            eprintln!("usage: vx-sched check <ID> <quick|thorough> | replay <file> | worker");
            2
        }
    };
    std::process::exit(code);
}
