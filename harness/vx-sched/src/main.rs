fn main() {
    let args: Vec<String> = std::env::args().collect();
    let code = match args.get(1).map(|s| s.as_str()) {
        Some("worker") => {
            vx_core::check::worker_main();
            0
        }
        Some("check") => {
            let prop = args.get(2).expect("property id");
            let tier = args.get(3).map(|s| s.as_str()).unwrap_or("quick");
            match vx_core::plans::plan(prop, tier) {
                Some(spec) => vx_core::check::run_check(spec),
                None => {
                    eprintln!("no plan for {prop}");
                    2
                }
            }
        }
        Some("plan") => {
            let prop = args.get(2).expect("property id");
            let tier = args.get(3).map(|s| s.as_str()).unwrap_or("quick");
            let spec = vx_core::plans::plan(prop, tier).expect("plan");
            let n: usize = spec.jobs.iter().map(|j| j.programs.len()).sum();
            println!("{} jobs, {} program x config items; {}", spec.jobs.len(), n, spec.rule_text);
            if let Some(k) = args.get(4).and_then(|s| s.parse::<usize>().ok()) {
                for j in spec.jobs.iter().step_by((spec.jobs.len() / k).max(1)) {
                    println!("  {} {}", j.programs[j.programs.len() / 2].name, j.programs[j.programs.len() / 2].short());
                }
            }
            0
        }
        Some("run1") => {
            // run1 <prop> <tier> <program-name> [bound|none]: explore one program in this process
            let prop = args.get(2).expect("property id");
            let tier = args.get(3).expect("tier");
            let name = args.get(4).expect("program name");
            let spec = vx_core::plans::plan(prop, tier).expect("plan");
            let cancelable = args.get(6).map_or(false, |s| s == "c");
            let mut found = None;
            for j in &spec.jobs {
                if j.cancelable != cancelable {
                    continue;
                }
                for p in &j.programs {
                    if &p.name == name {
                        found = Some((j.clone(), p.clone()));
                    }
                }
            }
            let (mut job, p) = found.expect("no such program in the plan");
            job.programs = vec![p.clone()];
            if let Some(b) = args.get(5) {
                job.bound = b.parse().ok();
            }
            println!("{}", p.short());
            let res = vx_core::check::run_job(&job);
            println!("executions {} transitions {} outcomes {} capped {} aborted {:?}", res.executions, res.transitions, res.outcomes.len(), res.capped, res.aborted);
            for g in &res.findings {
                println!("  {} / {} x{} reproduced={} choices={:?}: {}", g.finding.rule, g.finding.what, g.count, g.reproduced, g.choices, g.finding.detail);
            }
            for m in &res.machinery {
                println!("  MACHINERY {m}");
            }
            if let Some(s) = &res.sample {
                println!("  sample: {s}");
            }
            0
        }
        Some("replay") => vx_core::check::replay_main(args.get(2).expect("replay file")),
        _ => {
            eprintln!("usage: vx-sched check <ID> <quick|thorough> | replay <file> | worker");
            2
        }
    };
    std::process::exit(code);
}
