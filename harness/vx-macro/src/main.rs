//! C15: `#[trace]` twins. Every function exists twice, unannotated and annotated, generated from
//! the same tokens by `twin!`. Both are run over a small argument domain, with and without a local
//! parent, async ones with 0/1/2 pending polls; return values, error/panic payloads and the
//! side-effect log must agree, and the annotated one must record exactly the specified span.

use std::cell::RefCell;
use std::future::Future;
use std::panic::catch_unwind;
use std::panic::AssertUnwindSafe;
use std::pin::Pin;
use std::sync::Mutex;
use std::task::Context;
use std::task::Poll;
use std::task::RawWaker;
use std::task::RawWakerVTable;
use std::task::Waker;

use fastrace::collector::Config;
use fastrace::collector::Reporter;
use fastrace::prelude::*;

thread_local! {
    /// executor-like polling: the caller's local parent is set anew around every poll
    static PER_POLL_PARENT: RefCell<Option<std::sync::Arc<Span>>> = const { RefCell::new(None) };
    static LOG: RefCell<Vec<String>> = const { RefCell::new(Vec::new()) };
    static NAME: RefCell<Vec<String>> = const { RefCell::new(Vec::new()) };
}

fn log(s: impl Into<String>) {
    LOG.with(|l| l.borrow_mut().push(s.into()));
}

/// Records what `func_path!()` yields inside the body (the default span name).
macro_rules! here {
    () => {{
        // (evaluated outside of any closure: a closure would add its own `::{{closure}}`)
        let __path: &'static str = fastrace::func_path!();
        NAME.with(|n| n.borrow_mut().push(__path.to_string()))
    }};
}

struct Droppy(&'static str);
impl Drop for Droppy {
    fn drop(&mut self) {
        log(format!("drop:{}", self.0));
    }
}

/// A leaf future that is pending `n` times.
struct YieldN(u32);
impl Future for YieldN {
    type Output = ();
    fn poll(mut self: Pin<&mut Self>, _: &mut Context<'_>) -> Poll<()> {
        if self.0 == 0 {
            log("yield:ready");
            Poll::Ready(())
        } else {
            self.0 -= 1;
            log("yield:pending");
            Poll::Pending
        }
    }
}

// The attribute itself is written at the call site (and only passed through), so that the
// identifiers in its format strings resolve like they do for a hand-written annotation.
macro_rules! twin {
    ($(#[$attr:meta])* [$($q:tt)*] fn $p:ident / $t:ident $($rest:tt)*) => {
        $($q)* fn $p $($rest)*
        $(#[$attr])*
        $($q)* fn $t $($rest)*
    };
    ($(#[$attr:meta])* fn $p:ident / $t:ident $($rest:tt)*) => {
        fn $p $($rest)*
        $(#[$attr])*
        fn $t $($rest)*
    };
    ($(#[$attr:meta])* async fn $p:ident / $t:ident $($rest:tt)*) => {
        async fn $p $($rest)*
        $(#[$attr])*
        async fn $t $($rest)*
    };
}

// ---------------- the grid: sync functions ----------------

twin!(#[fastrace::trace()] fn value_p / value_t (a: u32) -> u32 { here!(); log(format!("body:{a}")); a * 2 + 1 });
twin!(#[fastrace::trace(name = "custom-name")] fn named_p / named_t (a: u32) -> u32 { here!(); log("named"); a + 7 });
twin!(#[fastrace::trace(short_name = true)] fn short_p / short_t (a: u32) -> u32 { here!(); log("short"); a ^ 5 });
// (annotations whose format strings name arguments are written out by hand: identifiers in a
// format string resolve at the attribute's call site, which inside `twin!` is the macro body)
fn props_p(a: u32, b: &str) -> String {
    here!();
    log("props");
    format!("{a}{b}")
}
#[fastrace::trace(properties = { "lit": "x y", "fmt": "{a}-{b}", "esc": "{{a}}", "mixed": "{{{a}}}", "spec": "{a:03}|{b:?}|{a:#x}", "trail": "{a}}}" })]
fn props_t(a: u32, b: &str) -> String {
    here!();
    log("props");
    format!("{a}{b}")
}
twin!(#[fastrace::trace(properties = { "close": "}}", "mid": "a}}b", "open": "{{", "both": "}}{{", "json": "{{\"x\": 1}}", "tail": "x}}", "empty": "" })] fn escapes_p / escapes_t (a: u32) -> u32 { here!(); a });
twin!(#[fastrace::trace(name = "n2", properties = { "only": "literal" })] fn props_lit_p / props_lit_t (a: u32) -> u32 { here!(); a });
twin!(#[fastrace::trace()] fn early_p / early_t (a: u32) -> u32 { here!(); if a == 0 { log("early"); return 99; } log("late"); a });
twin!(#[fastrace::trace()] fn question_p / question_t (a: u32) -> Result<u32, String> { here!(); let v = if a == 1 { Err(format!("bad{a}")) } else { Ok(a) }?; log("after?"); Ok(v + 1) });
twin!(#[fastrace::trace()] fn panics_p / panics_t (a: u32) -> u32 { here!(); let _d = Droppy("local"); if a == 2 { log("about to panic"); panic!("boom{a}"); } a });
twin!(#[fastrace::trace()] fn mutates_p / mutates_t (a: u32, acc: &mut Vec<u32>) { here!(); acc.push(a); acc.push(a + 1); log(format!("len:{}", acc.len())); });
twin!(#[fastrace::trace()] fn moves_p / moves_t (a: u32, s: String, d: Droppy) -> String { here!(); let _keep = d; log("moved"); format!("{s}:{a}") });
twin!(#[fastrace::trace()] fn borrows_p / borrows_t<'a> (a: u32, s: &'a [u32]) -> &'a u32 { here!(); &s[(a as usize) % s.len()] });
twin!(#[fastrace::trace()] fn generic_p / generic_t<T: std::fmt::Debug + Clone> (a: u32, t: T) -> (u32, T) where T: Send { here!(); log(format!("{t:?}")); (a, t.clone()) });
twin!(#[fastrace::trace()] fn locals_p / locals_t (a: u32) -> u32 { here!(); let _x = Droppy("x"); let _y = Droppy("y"); log("locals"); a });
twin!(#[fastrace::trace()] fn nested_p / nested_t (a: u32) -> u32 { here!(); log("outer"); value_t(a) + value_p(a) });
twin!(#[fastrace::trace()] fn unit_p / unit_t () { here!(); log("unit") });
twin!(#[fastrace::trace()] fn impl_ret_p / impl_ret_t (a: u32) -> impl Iterator<Item = u32> { here!(); (0..a).map(|x| x * 2) });
twin!(#[fastrace::trace()] fn mutarg_p / mutarg_t (mut a: u32) -> u32 { here!(); a += 1; log(format!("a:{a}")); a });
twin!(#[fastrace::trace()] fn pattern_p / pattern_t ((a, b): (u32, u32), [c, d]: [u32; 2], _: u32) -> u32 { here!(); log("pattern"); a + b * 10 + c * 100 + d * 1000 });
twin!(#[fastrace::trace()] fn constgen_p / constgen_t<const N: usize> (a: u32, x: [u8; N]) -> usize { here!(); N + a as usize + x.iter().map(|b| *b as usize).sum::<usize>() });
twin!(#[fastrace::trace()] [unsafe] fn unsafe_p / unsafe_t (a: u32, p: *const u32) -> u32 { here!(); log("unsafe"); a + *p });
twin!(#[fastrace::trace()] [pub(crate) extern "C"] fn externc_p / externc_t (a: u32) -> u32 { here!(); a + 11 });
twin!(#[fastrace::trace()] fn loops_p / loops_t (a: u32) -> u32 { here!(); let mut i = 0; let r = 'outer: loop { for k in 0..10 { if k + i > a + 2 { break 'outer k * 7; } } i += 1; }; log(format!("r:{r}")); r });
twin!(#[fastrace::trace()] fn closure_ret_p / closure_ret_t (a: u32) -> impl Fn(u32) -> u32 { here!(); log("mk-closure"); move |x| x * 3 + a });
twin!(#[fastrace::trace()] fn inner_items_p / inner_items_t (a: u32) -> u32 { here!(); const K: u32 = 3; struct W(u32); impl W { fn get(&self) -> u32 { self.0 * K } } fn inner(x: u32) -> u32 { x + K } inner(W(a).get()) });
twin!(#[fastrace::trace()] fn closure_early_p / closure_early_t (a: u32) -> u32 { here!(); let f = |x: u32| -> u32 { if x == 0 { return 7; } x }; log("after-closure"); f(a) + 1 });
twin!(#[fastrace::trace()] fn let_else_p / let_else_t (a: u32) -> u32 { here!(); let Some(v) = a.checked_sub(1) else { log("else"); return 77; }; match v { 0 => { log("zero"); 0 } n => n * 2 } });
twin!(#[fastrace::trace()] fn tail_borrow_p / tail_borrow_t (a: u32) -> usize { here!(); let s = Droppy("tail-local"); let v = vec![a; 3]; log(s.0); v.len() });
twin!(#[fastrace::trace()] fn unwind_locals_p / unwind_locals_t (a: u32) -> u32 { here!(); let _x = Droppy("ux"); let v: Vec<u32> = Vec::new(); let _y = Droppy("uy"); if a == 1 { return v[3]; } a });
fn rec_p(a: u32) -> u32 {
    here!();
    log(format!("rec:{a}"));
    if a == 0 {
        0
    } else {
        1 + rec_p(a - 1)
    }
}
#[fastrace::trace]
fn rec_t(a: u32) -> u32 {
    here!();
    log(format!("rec:{a}"));
    if a == 0 {
        0
    } else {
        1 + rec_t(a - 1)
    }
}

/// functions whose identifier is a single letter (the helper item inside func_path!() is called
/// `f` too); not twins: the expected names are written out
mod letters {
    use super::*;
    #[fastrace::trace]
    pub fn f(a: u32) -> u32 {
        log("f");
        a + 100
    }
    pub mod f {
        use super::super::*;
        #[fastrace::trace]
        pub fn f(a: u32) -> u32 {
            log("ff");
            a + 200
        }
        #[fastrace::trace]
        pub fn g(a: u32) -> u32 {
            log("fg");
            a + 300
        }
    }
}

struct S {
    v: u32,
}
impl S {
    twin!(#[fastrace::trace()] fn ref_p / ref_t (&self, a: u32) -> u32 { here!(); log("ref"); self.v + a });
    twin!(#[fastrace::trace(short_name = true)] fn mut_p / mut_t (&mut self, a: u32) -> u32 { here!(); self.v += a; log(format!("v:{}", self.v)); self.v });
    twin!(#[fastrace::trace(name = "consume")] fn own_p / own_t (self, a: u32) -> u32 { here!(); log("own"); self.v * a });
    fn selfprop_p(&self, a: u32) -> u32 {
        here!();
        self.v - a.min(self.v)
    }
    #[fastrace::trace(properties = { "a": "{a:>3}", "twice": "{a}{a}" })]
    fn selfprop_t(&self, a: u32) -> u32 {
        here!();
        self.v - a.min(self.v)
    }
    twin!(#[fastrace::trace()] async fn aref_p / aref_t (&self, a: u32, y: u32) -> u32 { here!(); YieldN(y).await; log("aref"); self.v + a });
    twin!(#[fastrace::trace()] fn boxself_p / boxself_t (self: Box<Self>, a: u32) -> u32 { here!(); log("boxself"); self.v + a });
    twin!(#[fastrace::trace()] fn arcself_p / arcself_t (self: &std::sync::Arc<Self>, a: u32) -> usize { here!(); std::sync::Arc::strong_count(self) + a as usize });
    twin!(#[fastrace::trace()] fn make_p / make_t (a: u32) -> Self { here!(); log("make"); Self { v: a + Self::K } });
    const K: u32 = 40;
    twin!(#[fastrace::trace(enter_on_poll = true)] async fn amut_p / amut_t (&mut self, a: u32, y: u32) -> Result<u32, String> { here!(); self.v += 1; YieldN(y).await; if a == 1 { Err(format!("e{}", self.v))?; } self.v += 1; Ok(self.v) });
}

struct G<T> {
    t: T,
}
impl<T: Clone + std::fmt::Debug> G<T> {
    twin!(#[fastrace::trace()] fn get_p / get_t (&self, a: u32) -> (T, u32) { here!(); log(format!("{:?}", self.t)); (self.t.clone(), a) });
    twin!(#[fastrace::trace()] async fn aget_p / aget_t<U: Into<u64>> (&self, a: u32, y: u32, u: U) -> (T, u64) { here!(); YieldN(y).await; (self.t.clone(), u.into() + a as u64) });
}

/// methods whose `where` clause constrains the impl's parameter (the function has no generic
/// parameters of its own); `.clone()` on a `&T` resolves to `T::clone` only with the bound
#[derive(Debug)]
struct Noisy(u32);
impl Clone for Noisy {
    fn clone(&self) -> Self {
        log(format!("clone:{}", self.0));
        Noisy(self.0 + 100)
    }
}
struct Shelf<T> {
    items: Vec<T>,
}
impl<T: std::fmt::Debug> Shelf<T> {
    twin!(#[fastrace::trace()] fn snap_p / snap_t (&self, a: u32) -> String where T: Clone { here!(); let copies: Vec<_> = self.items.iter().take(a as usize + 1).map(|it| it.clone()).collect(); format!("{copies:?}") });
    twin!(#[fastrace::trace()] async fn asnap_p / asnap_t (&self, a: u32, y: u32) -> String where T: Clone { here!(); YieldN(y).await; let copies: Vec<_> = self.items.iter().take(a as usize + 1).map(|it| it.clone()).collect(); format!("{copies:?}") });
}

trait Dflt {
    fn base(&self) -> u32;
    twin!(#[fastrace::trace()] fn dflt_p / dflt_t (&self, a: u32) -> u32 { here!(); log("dflt"); self.base() + a });
}
impl Dflt for S {
    fn base(&self) -> u32 {
        self.v * 2
    }
}

// ---------------- async functions ----------------

twin!(#[fastrace::trace()] async fn avalue_p / avalue_t (a: u32, y: u32) -> u32 { here!(); log("a:start"); YieldN(y).await; log("a:end"); a * 3 });
async fn aprops_p(a: u32, y: u32) -> u32 {
    here!();
    YieldN(y).await;
    a
}
#[fastrace::trace(name = "async-named", properties = { "a": "{a}", "lit": "{{}}" })]
async fn aprops_t(a: u32, y: u32) -> u32 {
    here!();
    YieldN(y).await;
    a
}
twin!(#[fastrace::trace(enter_on_poll = true)] async fn aeop_p / aeop_t (a: u32, y: u32) -> u32 { here!(); log("eop:start"); YieldN(y).await; log("eop:end"); a + 4 });
twin!(#[fastrace::trace(short_name = true, enter_on_poll = true)] async fn aeop_short_p / aeop_short_t (a: u32, y: u32) -> u32 { here!(); YieldN(y).await; a });
twin!(#[fastrace::trace()] async fn aquestion_p / aquestion_t (a: u32, y: u32) -> Result<u32, String> { here!(); YieldN(y).await; if a == 1 { Err::<(), _>("async-bad".to_string())?; } log("aq"); Ok(a) });
twin!(#[fastrace::trace()] async fn apanics_p / apanics_t (a: u32, y: u32) -> u32 { here!(); let _d = Droppy("alocal"); YieldN(y).await; if a == 2 { panic!("async-boom"); } a });
twin!(#[fastrace::trace()] async fn aearly_p / aearly_t (a: u32, y: u32) -> u32 { here!(); if a == 0 { return 5; } YieldN(y).await; a });
twin!(#[fastrace::trace()] async fn amoves_p / amoves_t (a: u32, y: u32, s: String) -> String { here!(); YieldN(y).await; format!("{s}{a}") });
twin!(#[fastrace::trace()] async fn aborrow_p / aborrow_t<'a> (a: u32, y: u32, s: &'a mut Vec<u32>) -> usize { here!(); s.push(a); YieldN(y).await; s.push(a); s.len() });
twin!(#[fastrace::trace()] async fn agen_p / agen_t<T: Clone + Send + 'static> (a: u32, y: u32, t: T) -> (u32, T) { here!(); YieldN(y).await; (a, t.clone()) });
twin!(#[fastrace::trace()] async fn amacro_p / amacro_t (a: u32, y: u32) -> Vec<u32> { here!(); log("m:start"); let v = vec![{ YieldN(y).await; a }, a + 1]; let _inner = fastrace::local::LocalSpan::enter_with_local_parent("after-await"); log("m:end"); v });
twin!(#[fastrace::trace()] async fn aassert_p / aassert_t (a: u32, y: u32) -> u32 { here!(); assert!({ YieldN(y).await; a < 10 }, "never"); log(format!("{}", { YieldN(1).await; a })); a });
twin!(#[fastrace::trace()] async fn anested_p / anested_t (a: u32, y: u32) -> u32 { here!(); let x = avalue_t(a, y).await; x + value_t(a) });
twin!(#[fastrace::trace()] async fn arefs_p / arefs_t (a: u32, y: u32, r: &str, m: &mut String) -> usize { here!(); m.push_str(r); YieldN(y).await; m.push_str(&a.to_string()); m.len() });
twin!(#[fastrace::trace()] async fn apattern_p / apattern_t ((a, b): (u32, u32), mut y: u32) -> u32 { here!(); y += b; YieldN(y).await; a + y });
// (`#[trace] async unsafe fn` is rejected: the macro emits `unsafe async fn`; outside the quantifier)
twin!(#[fastrace::trace()] async fn anoawait_p / anoawait_t (a: u32, y: u32) -> u32 { here!(); log("no-await"); a + y });
twin!(#[fastrace::trace()] async fn adrops_p / adrops_t (a: u32, y: u32) -> u32 { here!(); let _before = Droppy("before-await"); YieldN(y).await; let _after = Droppy("after-await"); YieldN(y.min(1)).await; log("adrops:end"); a });
twin!(#[fastrace::trace()] async fn ainner_p / ainner_t (a: u32, y: u32) -> u32 { here!(); let blk = async { YieldN(y).await; a * 2 }; let f = |x: u32| async move { YieldN(1).await; x + 1 }; let v = blk.await; f(v).await });
twin!(#[fastrace::trace()] async fn aimpl_p / aimpl_t (a: u32, y: u32, it: impl Iterator<Item = u32>) -> Vec<u32> { here!(); let mut v = Vec::new(); for x in it { YieldN(y.min(1)).await; v.push(x + a); } v });
twin!(#[fastrace::trace(enter_on_poll = true)] async fn aeop_q_p / aeop_q_t (a: u32, y: u32) -> Result<u32, String> { here!(); YieldN(y).await; if a == 2 { return Err("eop-err".into()); } let r: Result<u32, String> = Ok(a); Ok(r? + 1) });
// larger shapes: eight arguments and a dozen properties, 34 and 20 properties on a sync and an async function, a long
// format string, annotated calls nested four deep, a dozen pending polls
#[allow(clippy::too_many_arguments)]
fn many_p(a: u32, b: &str, c: u64, d: i8, e: bool, f: char, g: (u8, u8), h: Option<u32>) -> String {
    here!();
    log("many");
    format!("{a}{b}{c}{d}{e}{f}{g:?}{h:?}")
}
#[allow(clippy::too_many_arguments)]
#[fastrace::trace(properties = { "a": "{a}", "b": "{b}", "c": "{c}", "d": "{d}", "e": "{e}", "f": "{f}", "g": "{g:?}", "h": "{h:?}", "a2": "again-{a}", "long": "{a}-{b}-{c}-{d}-{e}-{f}-{g:?}-{h:?}-{a:08x}-{c:>12}-{{literal}}-{b:?}", "k11": "x", "k12": "" })]
fn many_t(a: u32, b: &str, c: u64, d: i8, e: bool, f: char, g: (u8, u8), h: Option<u32>) -> String {
    here!();
    log("many");
    format!("{a}{b}{c}{d}{e}{f}{g:?}{h:?}")
}
fn props20_p(a: u32, b: u32) -> u32 {
    here!();
    a * 100 + b
}
#[fastrace::trace(properties = { "k0": "{a}-0", "k1": "{b}-1", "k2": "{a}-2", "k3": "{b}-3", "k4": "{a}-4", "k5": "{b}-5", "k6": "{a}-6", "k7": "{b}-7", "k8": "{a}-8", "k9": "{b}-9", "k10": "{a}-10", "k11": "{b}-11", "k12": "{a}-12", "k13": "{b}-13", "k14": "{a}-14", "k15": "{b}-15", "k16": "{a}-16", "k17": "{b}-17", "k18": "{a}-18", "k19": "{b}-19", "k20": "{a}{b}", "k21": "lit", "k22": "{a:04}", "k23": "{b:?}", "k24": "{{}}", "k25": "{a}", "k26": "{b}", "k27": "x", "k28": "y", "k29": "z", "k30": "{a}", "k31": "{b}", "k32": "last-{a}", "k33": "really-last" })]
fn props20_t(a: u32, b: u32) -> u32 {
    here!();
    a * 100 + b
}
async fn aprops20_p(a: u32, y: u32) -> u32 {
    here!();
    YieldN(y).await;
    a + 1
}
#[fastrace::trace(properties = { "k0": "{a}-0", "k1": "1", "k2": "{a}-2", "k3": "3", "k4": "{a}-4", "k5": "5", "k6": "{a}-6", "k7": "7", "k8": "{a}-8", "k9": "9", "k10": "{a}-10", "k11": "11", "k12": "{a}-12", "k13": "13", "k14": "{a}-14", "k15": "15", "k16": "{a}-16", "k17": "17", "k18": "{a}-18", "k19": "19" })]
async fn aprops20_t(a: u32, y: u32) -> u32 {
    here!();
    YieldN(y).await;
    a + 1
}
twin!(#[fastrace::trace()] fn deep4_nested_p / deep4_nested_t (a: u32) -> u32 { here!(); log("d4"); a + 1 });
twin!(#[fastrace::trace()] fn deep3_nested_p / deep3_nested_t (a: u32) -> u32 { here!(); log("d3"); deep4_nested_t(a) * 2 });
twin!(#[fastrace::trace()] fn deep2_nested_p / deep2_nested_t (a: u32) -> u32 { here!(); log("d2"); deep3_nested_t(a) + deep3_nested_t(a + 1) });
twin!(#[fastrace::trace()] fn deep1_nested_p / deep1_nested_t (a: u32) -> u32 { here!(); log("d1"); deep2_nested_t(a) + 1 });

// bodies that are a single tail `.await`: the awaited expression (its arguments, the call that builds
// the future) is evaluated inside the function's span like everything else
async fn add_later(v: u32, y: u32) -> u32 {
    YieldN(y).await;
    v + 1
}
twin!(#[fastrace::trace(name = "atail")] async fn atail_nested_p / atail_nested_t (a: u32, y: u32) -> u32 { add_later(value_t(a), y).await });
twin!(#[fastrace::trace(name = "atail2", enter_on_poll = true)] async fn atail2_nested_p / atail2_nested_t (a: u32, y: u32) -> u32 { add_later({ log("arg"); value_t(a) + value_t(a + 1) }, y).await });
twin!(#[fastrace::trace(name = "atail3")] async fn atail3_nested_p / atail3_nested_t (a: u32, y: u32) -> u32 { boxed_move_t(value_t(a), y).await });

// hand-written functions that return a boxed future (the shape the async-trait detection looks for)
type BoxFut<T> = Pin<Box<dyn Future<Output = T>>>;
twin!(#[fastrace::trace()] fn boxed_nomove_p / boxed_nomove_t (a: u32, y: u32) -> BoxFut<u32> { here!(); log(format!("setup:{a}:{y}")); let _d = Droppy("setup-local"); Box::pin(async { log("fut"); YieldN(1).await; 7 }) });
twin!(#[fastrace::trace()] fn boxed_move_p / boxed_move_t (a: u32, y: u32) -> BoxFut<u32> { here!(); log(format!("setup:{a}")); Box::pin(async move { log("fut"); YieldN(y).await; a + 7 }) });
twin!(#[fastrace::trace(name = "boxed-only")] fn boxed_only_p / boxed_only_t (a: u32, y: u32) -> BoxFut<u32> { Box::pin(async move { log("fut-only"); YieldN(y).await; a * 2 }) });
twin!(#[fastrace::trace(short_name = true)] fn boxed_ready_p / boxed_ready_t (a: u32, y: u32) -> BoxFut<u32> { here!(); let v = a + y; log("before-ready"); Box::pin(std::future::ready(v)) });

#[async_trait::async_trait]
trait Tr {
    async fn at_p(&self, a: u32, y: u32) -> u32;
    async fn at_t(&self, a: u32, y: u32) -> u32;
    async fn at_eop_p(&mut self, a: u32, y: u32) -> u32;
    async fn at_eop_t(&mut self, a: u32, y: u32) -> u32;
}

#[async_trait::async_trait]
impl Tr for S {
    async fn at_p(&self, a: u32, y: u32) -> u32 {
        here!();
        log("at");
        YieldN(y).await;
        self.v + a
    }
    #[fastrace::trace(name = "at-name", properties = { "a": "{a}" })]
    async fn at_t(&self, a: u32, y: u32) -> u32 {
        here!();
        log("at");
        YieldN(y).await;
        self.v + a
    }
    async fn at_eop_p(&mut self, a: u32, y: u32) -> u32 {
        here!();
        self.v += 1;
        YieldN(y).await;
        self.v + a
    }
    #[fastrace::trace(enter_on_poll = true)]
    async fn at_eop_t(&mut self, a: u32, y: u32) -> u32 {
        here!();
        self.v += 1;
        YieldN(y).await;
        self.v + a
    }
}

trait Native {
    fn nat_p(&self, a: u32, y: u32) -> impl Future<Output = u32>;
    fn nat_t(&self, a: u32, y: u32) -> impl Future<Output = u32>;
}
impl Native for S {
    async fn nat_p(&self, a: u32, y: u32) -> u32 {
        here!();
        YieldN(y).await;
        self.v * 2 + a
    }
    #[fastrace::trace(short_name = true)]
    async fn nat_t(&self, a: u32, y: u32) -> u32 {
        here!();
        YieldN(y).await;
        self.v * 2 + a
    }
}

// ---------------- harness ----------------

static REPORTS: Mutex<Vec<SpanRecord>> = Mutex::new(Vec::new());
struct Cap;
impl Reporter for Cap {
    fn report(&mut self, spans: Vec<SpanRecord>) {
        REPORTS.lock().unwrap().extend(spans);
    }
}

fn noop_waker() -> Waker {
    fn clone(_: *const ()) -> RawWaker {
        RawWaker::new(std::ptr::null(), &VTABLE)
    }
    fn noop(_: *const ()) {}
    static VTABLE: RawWakerVTable = RawWakerVTable::new(clone, noop, noop, noop);
    unsafe { Waker::from_raw(RawWaker::new(std::ptr::null(), &VTABLE)) }
}

/// Drives a future to completion; returns its output and the number of polls.
fn drive<F: Future>(f: F) -> (F::Output, u32) {
    let mut f = Box::pin(f);
    let w = noop_waker();
    let mut cx = Context::from_waker(&w);
    let mut polls = 0;
    loop {
        polls += 1;
        log(format!("poll#{polls}"));
        let parent = PER_POLL_PARENT.with(|p| p.borrow().clone());
        let _scope = parent.as_ref().map(|p| p.set_local_parent());
        if let Poll::Ready(v) = f.as_mut().poll(&mut cx) {
            return (v, polls);
        }
        assert!(polls < 100);
    }
}

/// Polls a future `n` times, then drops it unfinished (cancellation).
fn drive_cancel<F: Future>(f: F, n: u32) -> (Option<F::Output>, u32) {
    let mut f = Box::pin(f);
    let w = noop_waker();
    let mut cx = Context::from_waker(&w);
    for polls in 1..=n {
        log(format!("poll#{polls}"));
        let parent = PER_POLL_PARENT.with(|p| p.borrow().clone());
        let _scope = parent.as_ref().map(|p| p.set_local_parent());
        if let Poll::Ready(v) = f.as_mut().poll(&mut cx) {
            return (Some(v), polls);
        }
    }
    log("cancel");
    drop(f);
    log("cancelled");
    (None, n)
}

#[derive(Debug, Clone, PartialEq)]
struct Run {
    outcome: String,
    log: Vec<String>,
    names: Vec<String>,
    polls: u32,
    records: Vec<(String, Vec<(String, String)>, bool)>,
    parent_ok: bool,
}

/// Runs `f` with or without a local parent and collects everything observable.
fn run(with_parent: bool, in_local_span: bool, per_poll: bool, f: &dyn Fn() -> (String, u32)) -> Run {
    LOG.with(|l| l.borrow_mut().clear());
    NAME.with(|l| l.borrow_mut().clear());
    REPORTS.lock().unwrap().clear();
    let root = std::sync::Arc::new(if with_parent { Span::root("ROOT", SpanContext::new(TraceId(0x15), SpanId(0))) } else { Span::noop() });
    let res;
    if per_poll {
        // like an executor driving `fut.in_span(root)`: the scope exists only during each poll (and
        // for sync functions during the call)
        PER_POLL_PARENT.with(|p| *p.borrow_mut() = Some(root.clone()));
        res = catch_unwind(AssertUnwindSafe(|| f()));
        PER_POLL_PARENT.with(|p| *p.borrow_mut() = None);
    } else {
        let _g = root.set_local_parent();
        let _l = if in_local_span { Some(LocalSpan::enter_with_local_parent("CALLER")) } else { None };
        res = catch_unwind(AssertUnwindSafe(|| f()));
    }
    drop(root);
    fastrace::flush();
    let recs: Vec<SpanRecord> = REPORTS.lock().unwrap().drain(..).collect();
    let parent_id = recs.iter().find(|r| r.name == if in_local_span { "CALLER" } else { "ROOT" }).map(|r| r.span_id);
    let mine: Vec<&SpanRecord> = recs.iter().filter(|r| r.name != "ROOT" && r.name != "CALLER").collect();
    // records of the function under test: those whose parent is the caller's local parent
    let top: Vec<&&SpanRecord> = mine.iter().filter(|r| Some(r.parent_id) == parent_id).collect();
    let (outcome, polls) = match res {
        Ok((s, p)) => (format!("ok:{s}"), p),
        Err(e) => (
            format!(
                "panic:{}",
                e.downcast_ref::<String>().cloned().or_else(|| e.downcast_ref::<&str>().map(|s| s.to_string())).unwrap_or_default()
            ),
            0,
        ),
    };
    Run {
        outcome,
        log: LOG.with(|l| l.borrow().clone()),
        names: NAME.with(|l| l.borrow().clone()),
        polls,
        records: top.iter().map(|r| (r.name.to_string(), r.properties.iter().map(|(k, v)| (k.to_string(), v.to_string())).collect(), !r.events.is_empty())).collect(),
        parent_ok: with_parent || mine.is_empty(),
    }
}

struct Case {
    id: String,
    plain: Box<dyn Fn() -> (String, u32)>,
    traced: Box<dyn Fn() -> (String, u32)>,
    /// expected span name: None = whatever func_path!() yields in the body
    name: Option<&'static str>,
    props: Vec<(String, String)>,
    per_poll: bool,
    /// how many records of other annotated functions called from the body hang below (ignored)
    is_async: bool,
}

fn d<T: std::fmt::Debug>(t: T) -> String {
    format!("{t:?}")
}

macro_rules! sync_case {
    ($cases:ident, $id:expr, $name:expr, $props:expr, |$a:ident| $p:expr, $t:expr) => {
        for $a in [0u32, 1, 2] {
            $cases.push(Case {
                id: format!("{}({})", $id, $a),
                plain: Box::new(move || (d($p), 0)),
                traced: Box::new(move || (d($t), 0)),
                name: $name,
                props: $props($a),
                per_poll: false,
                is_async: false,
            });
        }
    };
}

macro_rules! async_case {
    ($cases:ident, $id:expr, $name:expr, $props:expr, $per_poll:expr, |$a:ident, $y:ident| $p:expr, $t:expr) => {
        for $a in [0u32, 1, 2] {
            for $y in [0u32, 1, 2] {
                $cases.push(Case {
                    id: format!("{}({},pending={})", $id, $a, $y),
                    plain: Box::new(move || {
                        let (v, n) = drive($p);
                        (d(v), n)
                    }),
                    traced: Box::new(move || {
                        let (v, n) = drive($t);
                        (d(v), n)
                    }),
                    name: $name,
                    props: $props($a),
                    per_poll: $per_poll,
                    is_async: true,
                });
            }
        }
    };
}

/// the future is polled `n` times (1 or 2) and then dropped; `y` pending polls = n, so it never completes
macro_rules! cancel_case {
    ($cases:ident, $id:expr, $name:expr, $props:expr, $per_poll:expr, |$a:ident, $y:ident| $p:expr, $t:expr) => {
        for $a in [0u32, 2] {
            for n in [1u32, 2] {
                let $y = n;
                $cases.push(Case {
                    id: format!("{}/cancelled({},polls={})", $id, $a, n),
                    plain: Box::new(move || {
                        let (v, k) = drive_cancel($p, n);
                        (d(v), k)
                    }),
                    traced: Box::new(move || {
                        let (v, k) = drive_cancel($t, n);
                        (d(v), k)
                    }),
                    name: $name,
                    props: $props($a),
                    per_poll: $per_poll,
                    is_async: true,
                });
            }
        }
    };
}

fn no_props(_: u32) -> Vec<(String, String)> {
    vec![]
}

fn cases() -> Vec<Case> {
    let mut c: Vec<Case> = Vec::new();
    sync_case!(c, "value", None, no_props, |a| value_p(a), value_t(a));
    sync_case!(c, "named", Some("custom-name"), no_props, |a| named_p(a), named_t(a));
    sync_case!(c, "short", Some("short_t"), no_props, |a| short_p(a), short_t(a));
    sync_case!(
        c,
        "props",
        None,
        |a: u32| vec![
            ("lit".into(), "x y".into()),
            ("fmt".into(), format!("{a}-s{a}")),
            ("esc".into(), "{a}".into()),
            ("mixed".into(), format!("{{{a}}}")),
            ("spec".into(), format!("{a:03}|{:?}|{a:#x}", format!("s{a}"))),
            ("trail".into(), format!("{a}}}"))
        ],
        |a| props_p(a, &format!("s{a}")),
        props_t(a, &format!("s{a}"))
    );
    sync_case!(
        c,
        "escapes",
        None,
        |_| vec![
            ("close".to_string(), "}".to_string()),
            ("mid".to_string(), "a}b".to_string()),
            ("open".to_string(), "{".to_string()),
            ("both".to_string(), "}{".to_string()),
            ("json".to_string(), "{\"x\": 1}".to_string()),
            ("tail".to_string(), "x}".to_string()),
            ("empty".to_string(), String::new())
        ],
        |a| escapes_p(a),
        escapes_t(a)
    );
    sync_case!(c, "props_lit", Some("n2"), |_| vec![("only".to_string(), "literal".to_string())], |a| props_lit_p(a), props_lit_t(a));
    sync_case!(c, "early", None, no_props, |a| early_p(a), early_t(a));
    sync_case!(c, "question", None, no_props, |a| question_p(a), question_t(a));
    sync_case!(c, "panics", None, no_props, |a| panics_p(a), panics_t(a));
    sync_case!(
        c,
        "mutates",
        None,
        no_props,
        |a| {
            let mut v = vec![9];
            mutates_p(a, &mut v);
            v
        },
        {
            let mut v = vec![9];
            mutates_t(a, &mut v);
            v
        }
    );
    sync_case!(c, "moves", None, no_props, |a| moves_p(a, format!("s{a}"), Droppy("arg")), moves_t(a, format!("s{a}"), Droppy("arg")));
    sync_case!(c, "borrows", None, no_props, |a| *borrows_p(a, &[3, 4, 5]), *borrows_t(a, &[3, 4, 5]));
    sync_case!(c, "generic", None, no_props, |a| generic_p(a, vec![a, a]), generic_t(a, vec![a, a]));
    sync_case!(c, "locals", None, no_props, |a| locals_p(a), locals_t(a));
    sync_case!(c, "nested", None, no_props, |a| nested_p(a), nested_t(a));
    sync_case!(c, "unit", None, no_props, |a| { let _ = a; unit_p() }, { let _ = a; unit_t() });
    sync_case!(c, "impl_ret", None, no_props, |a| impl_ret_p(a).collect::<Vec<_>>(), impl_ret_t(a).collect::<Vec<_>>());
    sync_case!(c, "mutarg", None, no_props, |a| mutarg_p(a), mutarg_t(a));
    sync_case!(c, "pattern", None, no_props, |a| pattern_p((a, 2), [3, a], 9), pattern_t((a, 2), [3, a], 9));
    sync_case!(c, "constgen", None, no_props, |a| constgen_p(a, [1u8, 2, 3]), constgen_t(a, [1u8, 2, 3]));
    sync_case!(c, "unsafe", None, no_props, |a| { let k = 5u32; unsafe { unsafe_p(a, &k) } }, { let k = 5u32; unsafe { unsafe_t(a, &k) } });
    sync_case!(c, "externc", None, no_props, |a| externc_p(a), externc_t(a));
    sync_case!(c, "loops", None, no_props, |a| loops_p(a), loops_t(a));
    sync_case!(c, "closure_ret", None, no_props, |a| closure_ret_p(a)(a + 1), closure_ret_t(a)(a + 1));
    sync_case!(c, "inner_items", None, no_props, |a| inner_items_p(a), inner_items_t(a));
    sync_case!(c, "closure_early", None, no_props, |a| closure_early_p(a), closure_early_t(a));
    sync_case!(c, "let_else", None, no_props, |a| let_else_p(a), let_else_t(a));
    sync_case!(c, "tail_borrow", None, no_props, |a| tail_borrow_p(a), tail_borrow_t(a));
    sync_case!(c, "unwind_locals", None, no_props, |a| unwind_locals_p(a), unwind_locals_t(a));
    sync_case!(c, "rec", None, no_props, |a| rec_p(a), rec_t(a));
    sync_case!(c, "S::boxself", None, no_props, |a| Box::new(S { v: 10 }).boxself_p(a), Box::new(S { v: 10 }).boxself_t(a));
    sync_case!(c, "S::arcself", None, no_props, |a| std::sync::Arc::new(S { v: 10 }).arcself_p(a), std::sync::Arc::new(S { v: 10 }).arcself_t(a));
    sync_case!(c, "S::make", None, no_props, |a| S::make_p(a).v, S::make_t(a).v);
    sync_case!(c, "G::get", None, no_props, |a| G { t: vec![a] }.get_p(a), G { t: vec![a] }.get_t(a));
    sync_case!(c, "Dflt::dflt", None, no_props, |a| S { v: 4 }.dflt_p(a), S { v: 4 }.dflt_t(a));
    sync_case!(c, "Shelf::snap", None, no_props, |a| Shelf { items: vec![Noisy(1), Noisy(2), Noisy(3)] }.snap_p(a), Shelf { items: vec![Noisy(1), Noisy(2), Noisy(3)] }.snap_t(a));
    sync_case!(
        c,
        "many",
        None,
        |a: u32| vec![
            ("a".to_string(), format!("{a}")),
            ("b".to_string(), format!("s{a}")),
            ("c".to_string(), format!("{}", a as u64 + 7)),
            ("d".to_string(), "-3".to_string()),
            ("e".to_string(), format!("{}", a == 1)),
            ("f".to_string(), "é".to_string()),
            ("g".to_string(), format!("({a}, 2)")),
            ("h".to_string(), format!("{:?}", Some(a))),
            ("a2".to_string(), format!("again-{a}")),
            ("long".to_string(), format!("{a}-s{a}-{}--3-{}-é-({a}, 2)-{:?}-{a:08x}-{:>12}-{{literal}}-{:?}", a as u64 + 7, a == 1, Some(a), a as u64 + 7, format!("s{a}"))),
            ("k11".to_string(), "x".to_string()),
            ("k12".to_string(), String::new())
        ],
        |a| many_p(a, &format!("s{a}"), a as u64 + 7, -3, a == 1, 'é', (a as u8, 2), Some(a)),
        many_t(a, &format!("s{a}"), a as u64 + 7, -3, a == 1, 'é', (a as u8, 2), Some(a))
    );
    sync_case!(
        c,
        "props20",
        None,
        |a: u32| {
            let b = a + 5;
            let mut v: Vec<(String, String)> = (0..20).map(|i| (format!("k{i}"), format!("{}-{i}", if i % 2 == 0 { a } else { b }))).collect();
            v.extend([
                ("k20".to_string(), format!("{a}{b}")),
                ("k21".to_string(), "lit".to_string()),
                ("k22".to_string(), format!("{a:04}")),
                ("k23".to_string(), format!("{b:?}")),
                ("k24".to_string(), "{}".to_string()),
                ("k25".to_string(), format!("{a}")),
                ("k26".to_string(), format!("{b}")),
                ("k27".to_string(), "x".to_string()),
                ("k28".to_string(), "y".to_string()),
                ("k29".to_string(), "z".to_string()),
                ("k30".to_string(), format!("{a}")),
                ("k31".to_string(), format!("{b}")),
                ("k32".to_string(), format!("last-{a}")),
                ("k33".to_string(), "really-last".to_string()),
            ]);
            v
        },
        |a| props20_p(a, a + 5),
        props20_t(a, a + 5)
    );
    async_case!(c, "aprops20", None, |a: u32| (0..20).map(|i| (format!("k{i}"), if i % 2 == 0 { format!("{a}-{i}") } else { format!("{i}") })).collect(), false, |a, y| aprops20_p(a, y), aprops20_t(a, y));
    sync_case!(c, "deep1_nested", None, no_props, |a| deep1_nested_p(a), deep1_nested_t(a));
    sync_case!(c, "S::ref", None, no_props, |a| S { v: 10 }.ref_p(a), S { v: 10 }.ref_t(a));
    sync_case!(c, "S::mut", Some("mut_t"), no_props, |a| { let mut s = S { v: 10 }; (s.mut_p(a), s.v) }, { let mut s = S { v: 10 }; (s.mut_t(a), s.v) });
    sync_case!(c, "S::own", Some("consume"), no_props, |a| S { v: 10 }.own_p(a), S { v: 10 }.own_t(a));
    sync_case!(c, "S::selfprop", None, |a: u32| vec![("a".into(), format!("{a:>3}")), ("twice".into(), format!("{a}{a}"))], |a| S { v: 10 }.selfprop_p(a), S { v: 10 }.selfprop_t(a));
    async_case!(c, "avalue", None, no_props, false, |a, y| avalue_p(a, y), avalue_t(a, y));
    async_case!(c, "aprops", Some("async-named"), |a: u32| vec![("a".into(), format!("{a}")), ("lit".into(), "{}".into())], false, |a, y| aprops_p(a, y), aprops_t(a, y));
    async_case!(c, "aeop", None, no_props, true, |a, y| aeop_p(a, y), aeop_t(a, y));
    async_case!(c, "aeop_short", Some("aeop_short_t"), no_props, true, |a, y| aeop_short_p(a, y), aeop_short_t(a, y));
    async_case!(c, "aquestion", None, no_props, false, |a, y| aquestion_p(a, y), aquestion_t(a, y));
    async_case!(c, "apanics", None, no_props, false, |a, y| apanics_p(a, y), apanics_t(a, y));
    async_case!(c, "aearly", None, no_props, false, |a, y| aearly_p(a, y), aearly_t(a, y));
    async_case!(c, "amoves", None, no_props, false, |a, y| amoves_p(a, y, format!("m{a}")), amoves_t(a, y, format!("m{a}")));
    async_case!(
        c,
        "aborrow",
        None,
        no_props,
        false,
        |a, y| async move {
            let mut v = vec![1];
            let n = aborrow_p(a, y, &mut v).await;
            (n, v)
        },
        async move {
            let mut v = vec![1];
            let n = aborrow_t(a, y, &mut v).await;
            (n, v)
        }
    );
    async_case!(c, "agen", None, no_props, false, |a, y| agen_p(a, y, format!("g{a}")), agen_t(a, y, format!("g{a}")));
    async_case!(c, "amacro", None, no_props, false, |a, y| amacro_p(a, y), amacro_t(a, y));
    async_case!(c, "aassert", None, no_props, false, |a, y| aassert_p(a, y), aassert_t(a, y));
    async_case!(c, "anested", None, no_props, false, |a, y| anested_p(a, y), anested_t(a, y));
    async_case!(c, "S::aref", None, no_props, false, |a, y| async move { S { v: 3 }.aref_p(a, y).await }, async move { S { v: 3 }.aref_t(a, y).await });
    async_case!(c, "async_trait", Some("at-name"), |a: u32| vec![("a".to_string(), format!("{a}"))], false, |a, y| async move { S { v: 3 }.at_p(a, y).await }, async move { S { v: 3 }.at_t(a, y).await });
    async_case!(
        c,
        "async_trait_eop",
        None,
        no_props,
        true,
        |a, y| async move {
            let mut s = S { v: 3 };
            (s.at_eop_p(a, y).await, s.v)
        },
        async move {
            let mut s = S { v: 3 };
            (s.at_eop_t(a, y).await, s.v)
        }
    );
    async_case!(
        c,
        "arefs",
        None,
        no_props,
        false,
        |a, y| async move {
            let mut m = String::from("m");
            let n = arefs_p(a, y, "rr", &mut m).await;
            (n, m)
        },
        async move {
            let mut m = String::from("m");
            let n = arefs_t(a, y, "rr", &mut m).await;
            (n, m)
        }
    );
    async_case!(c, "apattern", None, no_props, false, |a, y| apattern_p((a, 1), y), apattern_t((a, 1), y));
    async_case!(c, "anoawait", None, no_props, false, |a, y| anoawait_p(a, y), anoawait_t(a, y));
    async_case!(c, "adrops", None, no_props, false, |a, y| adrops_p(a, y), adrops_t(a, y));
    async_case!(c, "ainner", None, no_props, false, |a, y| ainner_p(a, y), ainner_t(a, y));
    async_case!(c, "aimpl", None, no_props, false, |a, y| aimpl_p(a, y, 0..a + 1), aimpl_t(a, y, 0..a + 1));
    async_case!(c, "aeop_q", None, no_props, true, |a, y| aeop_q_p(a, y), aeop_q_t(a, y));
    async_case!(
        c,
        "S::amut",
        None,
        no_props,
        true,
        |a, y| async move {
            let mut s = S { v: 3 };
            (s.amut_p(a, y).await, s.v)
        },
        async move {
            let mut s = S { v: 3 };
            (s.amut_t(a, y).await, s.v)
        }
    );
    async_case!(c, "G::aget", None, no_props, false, |a, y| async move { G { t: "g" }.aget_p(a, y, 7u32).await }, async move { G { t: "g" }.aget_t(a, y, 7u32).await });
    async_case!(c, "Shelf::asnap", None, no_props, false, |a, y| async move { Shelf { items: vec![Noisy(1), Noisy(2)] }.asnap_p(a, y).await }, async move { Shelf { items: vec![Noisy(1), Noisy(2)] }.asnap_t(a, y).await });
    async_case!(c, "atail_nested", Some("atail"), no_props, false, |a, y| atail_nested_p(a, y), atail_nested_t(a, y));
    async_case!(c, "atail2_nested", Some("atail2"), no_props, true, |a, y| atail2_nested_p(a, y), atail2_nested_t(a, y));
    async_case!(c, "atail3_nested", Some("atail3"), no_props, false, |a, y| atail3_nested_p(a, y), atail3_nested_t(a, y));
    // a dozen pending polls
    for (id, per_poll, which) in [("avalue/12", false, 0u8), ("aeop/12", true, 1), ("adrops/12", false, 2)] {
        c.push(Case {
            id: format!("{id}(1,pending=12)"),
            plain: Box::new(move || match which {
                0 => { let (v, n) = drive(avalue_p(1, 12)); (d(v), n) }
                1 => { let (v, n) = drive(aeop_p(1, 12)); (d(v), n) }
                _ => { let (v, n) = drive(adrops_p(1, 12)); (d(v), n) }
            }),
            traced: Box::new(move || match which {
                0 => { let (v, n) = drive(avalue_t(1, 12)); (d(v), n) }
                1 => { let (v, n) = drive(aeop_t(1, 12)); (d(v), n) }
                _ => { let (v, n) = drive(adrops_t(1, 12)); (d(v), n) }
            }),
            name: None,
            props: vec![],
            per_poll,
            is_async: true,
        });
    }
    // cancellation: a future polled once or twice and then dropped is still one call
    cancel_case!(c, "avalue", None, no_props, false, |a, y| avalue_p(a, y), avalue_t(a, y));
    cancel_case!(c, "adrops", None, no_props, false, |a, y| adrops_p(a, y), adrops_t(a, y));
    cancel_case!(c, "aeop", None, no_props, true, |a, y| aeop_p(a, y), aeop_t(a, y));
    cancel_case!(c, "async_trait", Some("at-name"), |a: u32| vec![("a".to_string(), format!("{a}"))], false, |a, y| async move { S { v: 3 }.at_p(a, y).await }, async move { S { v: 3 }.at_t(a, y).await });
    cancel_case!(c, "boxed_move", None, no_props, false, |a, y| boxed_move_p(a, y), boxed_move_t(a, y));
    // a plain function records its span when it returns, whatever becomes of the value it returned
    sync_case!(c, "boxed_nomove_leaked", None, no_props, |a| std::mem::forget(boxed_nomove_p(a, 1)), std::mem::forget(boxed_nomove_t(a, 1)));
    sync_case!(c, "boxed_ready_leaked", Some("boxed_ready_t"), no_props, |a| std::mem::forget(boxed_ready_p(a, 1)), std::mem::forget(boxed_ready_t(a, 1)));
    async_case!(c, "boxed_nomove", None, no_props, false, |a, y| boxed_nomove_p(a, y), boxed_nomove_t(a, y));
    async_case!(c, "boxed_move", None, no_props, false, |a, y| boxed_move_p(a, y), boxed_move_t(a, y));
    async_case!(c, "boxed_only", Some("boxed-only"), no_props, false, |a, y| boxed_only_p(a, y), boxed_only_t(a, y));
    async_case!(c, "boxed_ready", Some("boxed_ready_t"), no_props, false, |a, y| boxed_ready_p(a, y), boxed_ready_t(a, y));
    async_case!(c, "native_async_trait", Some("nat_t"), no_props, false, |a, y| async move { S { v: 3 }.nat_p(a, y).await }, async move { S { v: 3 }.nat_t(a, y).await });
    c
}

struct Out {
    evaluations: u64,
    classes: std::collections::BTreeSet<String>,
    violations: Vec<serde_json::Value>,
}

impl Out {
    fn violation(&mut self, case: &str, kind: &str, detail: String) {
        let key = format!("{}:{kind}", case.split('(').next().unwrap_or(case));
        if self.violations.len() < 12 && !self.violations.iter().any(|v| v["key"] == key.as_str()) {
            self.violations.push(serde_json::json!({"engine": "macro", "key": key, "case": case, "kind": kind, "detail": detail}));
        }
    }
}

fn check_all(out: &mut Out) {
    for (id, call, want_value, want_name) in [
        ("letters::f", (|| letters::f(1)) as fn() -> u32, 101u32, concat!(module_path!(), "::letters::f")),
        ("letters::f::f", || letters::f::f(1), 201, concat!(module_path!(), "::letters::f::f")),
        ("letters::f::g", || letters::f::g(1), 301, concat!(module_path!(), "::letters::f::g")),
    ] {
        out.evaluations += 1;
        let t = run(true, false, false, &move || (d(call()), 0));
        out.classes.insert(format!("{id}:true:ok"));
        if t.outcome != format!("ok:{want_value}") {
            out.violation(id, "outcome", format!("{id}: {:?}", t.outcome));
        }
        if t.records.len() != 1 || t.records[0].0 != want_name {
            out.violation(id, "span-name", format!("{id} [under a root]: recorded {:?}, expected one span named {want_name:?}", t.records));
        }
    }
    for c in cases() {
        for (with_parent, in_local, per_poll) in [(true, false, false), (true, true, false), (false, false, false), (true, false, true)] {
            // a scope that only exists during each poll makes sense for the async twins
            // (and not for plain functions that hand out a boxed future: those are called before the first poll)
            if per_poll && (!c.is_async || c.id.starts_with("boxed")) {
                continue;
            }
            out.evaluations += 1;
            let p = run(with_parent, in_local, per_poll, &*c.plain);
            let t = run(with_parent, in_local, per_poll, &*c.traced);
            let ctx = format!("{} [{}]", c.id, if !with_parent { "no local parent" } else if in_local { "inside a local span" } else if per_poll { "local parent set around every poll" } else { "under a root" });
            out.classes.insert(format!("{}:{}:{}", c.id.split('(').next().unwrap(), with_parent, &t.outcome[..t.outcome.find(':').unwrap_or(2)]));
            if p.outcome != t.outcome {
                out.violation(&c.id, "outcome", format!("{ctx}: plain {:?}, traced {:?}", p.outcome, t.outcome));
            }
            if p.log != t.log {
                out.violation(&c.id, "side-effects", format!("{ctx}: plain {:?}, traced {:?}", p.log, t.log));
            }
            // (the `nested` twins call another annotated function and `amacro` opens a local span of its own:
            // those record under the caller in the unannotated twin)
            if !p.records.is_empty() && !c.id.contains("nested") && !c.id.contains("amacro") {
                out.violation(&c.id, "plain-recorded", format!("{ctx}: the unannotated twin recorded {:?}", p.records));
            }
            if !with_parent {
                if !t.records.is_empty() || !t.parent_ok {
                    out.violation(&c.id, "recorded-without-parent", format!("{ctx}: {:?}", t.records));
                }
                continue;
            }
            let expected_count = if c.per_poll { t.polls.max(1) as usize } else { 1 };
            // a function that panics before being polled to completion is still one call
            let expected_count = if t.outcome.starts_with("panic") && c.per_poll { t.records.len().max(1) } else { expected_count };
            if t.records.len() != expected_count {
                out.violation(&c.id, "span-count", format!("{ctx}: {} spans under the caller's local parent, expected {expected_count}: {:?}", t.records.len(), t.records));
                continue;
            }
            // default name: what func_path!() yields in the body of the unannotated function
            // (`…::{{closure}}` for an async fn), with the twin's identifier substituted
            let want_name = match c.name {
                Some(n) => n.to_string(),
                None => p.names.first().cloned().unwrap_or_default().replace("_p::{{closure}}", "_t::{{closure}}").replace("_p", "_t"),
            };
            // async_trait turns the method into a plain fn returning a boxed future: whether the
            // default name then carries the `::{{closure}}` suffix is not fixed by the statement
            let alt_name = if c.id.starts_with("async_trait") { want_name.trim_end_matches("::{{closure}}").to_string() } else { want_name.clone() };
            for (name, props, _) in &t.records {
                if *name != want_name && *name != alt_name {
                    out.violation(&c.id, "span-name", format!("{ctx}: recorded {name:?}, expected {want_name:?}"));
                }
                if *props != c.props {
                    out.violation(&c.id, "span-properties", format!("{ctx}: recorded {props:?}, expected {:?}", c.props));
                }
            }
            if c.is_async && !c.id.starts_with("boxed") && c.name.is_none() && !want_name.ends_with("::{{closure}}") && !want_name.is_empty() {
                out.violation(&c.id, "async-default-name", format!("{ctx}: func_path!() in the body is {want_name:?}"));
            }
        }
    }
}

fn main() {
    let args: Vec<String> = std::env::args().collect();
    std::panic::set_hook(Box::new(|_| {}));
    fastrace::set_reporter(Cap, Config::default().report_interval(std::time::Duration::from_secs(1_000_000_000)));
    std::thread::sleep(std::time::Duration::from_millis(20));
    let root = std::env::var("VERIF_ROOT").unwrap_or_else(|_| "/verif".into());
    let mut out = Out { evaluations: 0, classes: Default::default(), violations: vec![] };
    let t0 = std::time::Instant::now();
    if args.get(1).map(|s| s.as_str()) == Some("replay") {
        let v: serde_json::Value = serde_json::from_str(&std::fs::read_to_string(&args[2]).expect("replay")).expect("json");
        let key = v["violation"]["key"].as_str().unwrap_or("").to_string();
        check_all(&mut out);
        for x in &out.violations {
            println!("  {}: {}", x["key"], x["detail"]);
        }
        if out.violations.iter().any(|x| x["key"] == key.as_str()) {
            println!("VIOLATION property=C15 replay={}", args[2]);
            std::process::exit(1);
        }
        println!("not reproduced");
        std::process::exit(0);
    }
    let tier = args.get(1).cloned().unwrap_or_else(|| "quick".into());
    check_all(&mut out);
    let mut code = 0;
    for v in &out.violations {
        let dir = format!("{root}/replays");
        let _ = std::fs::create_dir_all(&dir);
        let path = format!("{dir}/C15-{}.json", v["key"].as_str().unwrap().replace([':', '/'], "-"));
        std::fs::write(&path, serde_json::to_string_pretty(&serde_json::json!({"engine": "macro", "violation": v})).unwrap()).unwrap();
        println!("VIOLATION property=C15 replay={path}");
        println!("  {}: {}", v["kind"], v["detail"]);
        code = 1;
    }
    let ev = serde_json::json!({
        "property_id": "C15",
        "tier": tier,
        "seed": std::env::var("VERIF_SEED").ok().and_then(|s| s.parse::<i64>().ok()).unwrap_or(0),
        "level": "exploration",
        "coverage": {
            "evaluations": out.evaluations,
            "distinct_nontrivial": out.classes.len(),
            "rule": "twin functions generated from the same tokens with and without #[trace]: 16 sync shapes (value, name=, short_name, literal/format/escaped properties, early return, ?, panic, &mut mutation, by-value move, borrowed return, generic + where, locals with Drop, nested annotated call, unit, impl Trait return), 5 methods (&self, &mut self, self, properties over self fields, async &self), 11 async shapes (incl. enter_on_poll, ?, panic, early return, moves, &mut borrow, generic, nested), async_trait impl (in_span and enter_on_poll), native async-in-trait, further sync shapes (mut / pattern / wildcard arguments, const generics, unsafe fn, extern C fn, labelled loops, returned closure, inner items, return inside a closure, let-else, unwinding past locals, recursion, Box<Self> / &Arc<Self> receivers, Self-returning associated function, method of a generic impl, default method of a trait, methods whose where clause constrains the impl's parameter), further async shapes (reference arguments, pattern arguments, no await, locals dropped across awaits, inner async blocks and closures, impl Trait argument, enter_on_poll with ? and &mut self, generic method of a generic impl), cancellation (future polled once or twice, then dropped: 5 shapes), 4 plain functions returning a boxed future (Box::pin(async { .. }) and Box::pin(async move { .. }) after other statements, a lone Box::pin(async move { .. }), Box::pin(ready(..)); two of them also with the returned future leaked); x arguments {0,1,2} x pending polls {0,1,2} x {under a root, inside a local span, no local parent, local parent set anew around every poll (async twins)}; distinct_nontrivial counts distinct (function, local parent?, outcome kind) classes",
            "samples": [cases().iter().map(|c| c.id.clone()).step_by(17).collect::<Vec<_>>()],
            "exhaustive": true,
            "violation_list": out.violations,
        },
        "assumptions": [
            "the grid is a fixed set of signatures/bodies compiled into the harness; 'for all function signatures accepted by the macro' is covered shape by shape, not exhaustively",
            "the order in which unused by-value arguments are dropped afterwards is not compared (not claimed by the statement)"
        ],
        "wall_s": t0.elapsed().as_secs_f64(),
        "violations": out.violations.len(),
    });
    let dir = format!("{root}/evidence");
    let _ = std::fs::create_dir_all(&dir);
    std::fs::write(format!("{dir}/C15.json"), serde_json::to_string_pretty(&ev).unwrap()).unwrap();
    println!("C15 {tier}: {} twin runs, {} classes, {} violations, {:.1}s", out.evaluations, out.classes.len(), out.violations.len(), t0.elapsed().as_secs_f64());
    std::process::exit(code);
}
