//! Independent decoders for the wire formats of the bundled reporters: Thrift compact protocol
//! (Jaeger agent `emitBatch`) and MessagePack (Datadog v0.4 traces).

use std::collections::BTreeMap;

#[derive(Debug, Clone, PartialEq)]
pub enum TV {
    Bool(bool),
    I(i64),
    Double(f64),
    Bin(Vec<u8>),
    List(Vec<TV>),
    Struct(BTreeMap<i16, TV>),
}

pub struct Rd<'a> {
    pub b: &'a [u8],
    pub p: usize,
}

type R<T> = Result<T, String>;

impl<'a> Rd<'a> {
    pub fn new(b: &'a [u8]) -> Self {
        Rd { b, p: 0 }
    }
    fn u8(&mut self) -> R<u8> {
        let v = *self.b.get(self.p).ok_or("truncated")?;
        self.p += 1;
        Ok(v)
    }
    fn take(&mut self, n: usize) -> R<&'a [u8]> {
        if self.p + n > self.b.len() {
            return Err("truncated".into());
        }
        let s = &self.b[self.p..self.p + n];
        self.p += n;
        Ok(s)
    }
    fn varint(&mut self) -> R<u64> {
        let mut v = 0u64;
        let mut shift = 0;
        loop {
            let b = self.u8()?;
            v |= ((b & 0x7f) as u64) << shift;
            if b & 0x80 == 0 {
                return Ok(v);
            }
            shift += 7;
            if shift > 63 {
                return Err("varint too long".into());
            }
        }
    }
    fn zigzag(&mut self) -> R<i64> {
        let v = self.varint()?;
        Ok(((v >> 1) as i64) ^ -((v & 1) as i64))
    }

    fn thrift_value(&mut self, ty: u8, depth: u32) -> R<TV> {
        if depth > 16 {
            return Err("too deep".into());
        }
        Ok(match ty {
            1 => TV::Bool(true),
            2 => TV::Bool(false),
            3 => TV::I(self.u8()? as i8 as i64),
            4 | 5 | 6 => TV::I(self.zigzag()?),
            7 => {
                let s = self.take(8)?;
                TV::Double(f64::from_le_bytes(s.try_into().unwrap()))
            }
            8 => {
                let n = self.varint()? as usize;
                TV::Bin(self.take(n)?.to_vec())
            }
            9 | 10 => {
                let h = self.u8()?;
                let ety = h & 0x0f;
                let mut n = (h >> 4) as usize;
                if n == 15 {
                    n = self.varint()? as usize;
                }
                let mut v = Vec::with_capacity(n.min(4096));
                for _ in 0..n {
                    // booleans in lists are one byte each
                    if ety == 1 || ety == 2 {
                        v.push(TV::Bool(self.u8()? == 1));
                    } else {
                        v.push(self.thrift_value(ety, depth + 1)?);
                    }
                }
                TV::List(v)
            }
            12 => TV::Struct(self.thrift_struct(depth + 1)?),
            other => return Err(format!("unsupported thrift type {other}")),
        })
    }

    pub fn thrift_struct(&mut self, depth: u32) -> R<BTreeMap<i16, TV>> {
        let mut out = BTreeMap::new();
        let mut last: i16 = 0;
        loop {
            let h = self.u8()?;
            if h == 0 {
                return Ok(out);
            }
            let ty = h & 0x0f;
            let delta = h >> 4;
            let id = if delta == 0 { self.zigzag()? as i16 } else { last + delta as i16 };
            last = id;
            let v = self.thrift_value(ty, depth)?;
            if out.insert(id, v).is_some() {
                return Err(format!("field {id} twice"));
            }
        }
    }
}

#[derive(Debug, Clone, PartialEq)]
pub struct JSpan {
    pub trace_low: i64,
    pub trace_high: i64,
    pub span_id: i64,
    pub parent: i64,
    pub name: String,
    pub flags: i64,
    pub start: i64,
    pub duration: i64,
    pub tags: Vec<(String, String)>,
    pub logs: Vec<(i64, Vec<(String, String)>)>,
    pub has_references: bool,
}

fn s(v: Option<&TV>) -> R<String> {
    match v {
        Some(TV::Bin(b)) => String::from_utf8(b.clone()).map_err(|_| "string is not UTF-8".to_string()),
        _ => Err("string field missing".into()),
    }
}
fn i(v: Option<&TV>) -> R<i64> {
    match v {
        Some(TV::I(x)) => Ok(*x),
        _ => Err("integer field missing".into()),
    }
}

fn tags(v: Option<&TV>) -> R<Vec<(String, String)>> {
    let mut out = Vec::new();
    match v {
        None => {}
        Some(TV::List(l)) => {
            for t in l {
                let TV::Struct(f) = t else { return Err("tag is not a struct".into()) };
                if i(f.get(&2))? != 0 {
                    return Err("tag type is not STRING".into());
                }
                out.push((s(f.get(&1))?, s(f.get(&3))?));
            }
        }
        _ => return Err("tags is not a list".into()),
    }
    Ok(out)
}

/// Decodes one Jaeger agent datagram: a compact-protocol oneway message `emitBatch(Batch)`.
pub fn decode_emit_batch(b: &[u8]) -> R<(String, Vec<JSpan>)> {
    let mut r = Rd::new(b);
    if r.u8()? != 0x82 {
        return Err("not a compact-protocol message".into());
    }
    let vt = r.u8()?;
    if vt & 0x1f != 1 {
        return Err("wrong compact protocol version".into());
    }
    if vt >> 5 != 4 {
        return Err(format!("message type {} is not ONEWAY", vt >> 5));
    }
    let _seq = r.varint()?;
    let n = r.varint()? as usize;
    let name = String::from_utf8(r.take(n)?.to_vec()).map_err(|_| "method name not UTF-8")?;
    if name != "emitBatch" {
        return Err(format!("method {name:?} is not emitBatch"));
    }
    let args = r.thrift_struct(0)?;
    if r.p != b.len() {
        return Err("trailing bytes after the message".into());
    }
    let Some(TV::Struct(batch)) = args.get(&1) else { return Err("no batch argument".into()) };
    let Some(TV::Struct(process)) = batch.get(&1) else { return Err("no process".into()) };
    let service = s(process.get(&1))?;
    let Some(TV::List(spans)) = batch.get(&2) else { return Err("no span list".into()) };
    let mut out = Vec::new();
    for sp in spans {
        let TV::Struct(f) = sp else { return Err("span is not a struct".into()) };
        let mut logs = Vec::new();
        match f.get(&11) {
            None => {}
            Some(TV::List(l)) => {
                for lg in l {
                    let TV::Struct(lf) = lg else { return Err("log is not a struct".into()) };
                    logs.push((i(lf.get(&1))?, tags(lf.get(&2))?));
                }
            }
            _ => return Err("logs is not a list".into()),
        }
        out.push(JSpan {
            trace_low: i(f.get(&1))?,
            trace_high: i(f.get(&2))?,
            span_id: i(f.get(&3))?,
            parent: i(f.get(&4))?,
            name: s(f.get(&5))?,
            flags: i(f.get(&7))?,
            start: i(f.get(&8))?,
            duration: i(f.get(&9))?,
            tags: tags(f.get(&10))?,
            logs,
            has_references: f.contains_key(&6),
        });
    }
    Ok((service, out))
}

// ---------------- MessagePack ----------------

#[derive(Debug, Clone, PartialEq)]
pub enum MV {
    Nil,
    Bool(bool),
    U(u64),
    I(i64),
    Str(String),
    Arr(Vec<MV>),
    Map(Vec<(MV, MV)>),
}

impl<'a> Rd<'a> {
    fn be(&mut self, n: usize) -> R<u64> {
        let s = self.take(n)?;
        let mut v = 0u64;
        for b in s {
            v = (v << 8) | *b as u64;
        }
        Ok(v)
    }
    fn mp_str(&mut self, n: usize) -> R<MV> {
        Ok(MV::Str(String::from_utf8(self.take(n)?.to_vec()).map_err(|_| "msgpack str not UTF-8")?))
    }
    fn mp_arr(&mut self, n: usize, d: u32) -> R<MV> {
        let mut v = Vec::with_capacity(n.min(4096));
        for _ in 0..n {
            v.push(self.msgpack(d + 1)?);
        }
        Ok(MV::Arr(v))
    }
    fn mp_map(&mut self, n: usize, d: u32) -> R<MV> {
        let mut v = Vec::with_capacity(n.min(4096));
        for _ in 0..n {
            let k = self.msgpack(d + 1)?;
            let val = self.msgpack(d + 1)?;
            v.push((k, val));
        }
        Ok(MV::Map(v))
    }
    pub fn msgpack(&mut self, d: u32) -> R<MV> {
        if d > 16 {
            return Err("too deep".into());
        }
        let t = self.u8()?;
        Ok(match t {
            0x00..=0x7f => MV::U(t as u64),
            0x80..=0x8f => return self.mp_map((t & 0x0f) as usize, d),
            0x90..=0x9f => return self.mp_arr((t & 0x0f) as usize, d),
            0xa0..=0xbf => return self.mp_str((t & 0x1f) as usize),
            0xc0 => MV::Nil,
            0xc2 => MV::Bool(false),
            0xc3 => MV::Bool(true),
            0xcc => MV::U(self.be(1)?),
            0xcd => MV::U(self.be(2)?),
            0xce => MV::U(self.be(4)?),
            0xcf => MV::U(self.be(8)?),
            0xd0 => MV::I(self.be(1)? as u8 as i8 as i64),
            0xd1 => MV::I(self.be(2)? as u16 as i16 as i64),
            0xd2 => MV::I(self.be(4)? as u32 as i32 as i64),
            0xd3 => MV::I(self.be(8)? as i64),
            0xd9 => {
                let n = self.be(1)? as usize;
                return self.mp_str(n);
            }
            0xda => {
                let n = self.be(2)? as usize;
                return self.mp_str(n);
            }
            0xdb => {
                let n = self.be(4)? as usize;
                return self.mp_str(n);
            }
            0xdc => {
                let n = self.be(2)? as usize;
                return self.mp_arr(n, d);
            }
            0xdd => {
                let n = self.be(4)? as usize;
                return self.mp_arr(n, d);
            }
            0xde => {
                let n = self.be(2)? as usize;
                return self.mp_map(n, d);
            }
            0xdf => {
                let n = self.be(4)? as usize;
                return self.mp_map(n, d);
            }
            0xe0..=0xff => MV::I(t as i8 as i64),
            other => return Err(format!("unsupported msgpack type byte {other:#x}")),
        })
    }
}

#[derive(Debug, Clone, PartialEq, Default)]
pub struct DSpan {
    pub name: String,
    pub service: String,
    pub ty: String,
    pub resource: String,
    pub start: i128,
    pub duration: i128,
    pub meta: Option<BTreeMap<String, String>>,
    pub error: i128,
    pub span_id: u64,
    pub trace_id: u64,
    pub parent_id: u64,
}

fn mp_int(v: &MV) -> R<i128> {
    match v {
        MV::U(u) => Ok(*u as i128),
        MV::I(i) => Ok(*i as i128),
        _ => Err("not an integer".into()),
    }
}

/// Decodes a Datadog v0.4 `traces` body: array of traces, each an array of span maps.
pub fn decode_dd(body: &[u8]) -> R<Vec<Vec<DSpan>>> {
    let mut r = Rd::new(body);
    let v = r.msgpack(0)?;
    if r.p != body.len() {
        return Err("trailing bytes after the msgpack value".into());
    }
    let MV::Arr(traces) = v else { return Err("body is not an array".into()) };
    let mut out = Vec::new();
    for t in traces {
        let MV::Arr(spans) = t else { return Err("trace is not an array".into()) };
        let mut ts = Vec::new();
        for sp in spans {
            let MV::Map(kv) = sp else { return Err("span is not a map".into()) };
            let mut d = DSpan::default();
            let mut seen = std::collections::BTreeSet::new();
            for (k, v) in kv {
                let MV::Str(k) = k else { return Err("span key is not a string".into()) };
                if !seen.insert(k.clone()) {
                    return Err(format!("key {k} twice"));
                }
                match (k.as_str(), &v) {
                    ("name", MV::Str(s)) => d.name = s.clone(),
                    ("service", MV::Str(s)) => d.service = s.clone(),
                    ("type", MV::Str(s)) => d.ty = s.clone(),
                    ("resource", MV::Str(s)) => d.resource = s.clone(),
                    ("start", v) => d.start = mp_int(v)?,
                    ("duration", v) => d.duration = mp_int(v)?,
                    ("error_code", v) | ("error", v) => d.error = mp_int(v)?,
                    ("span_id", v) => d.span_id = mp_int(v)? as u64,
                    ("trace_id", v) => d.trace_id = mp_int(v)? as u64,
                    ("parent_id", v) => d.parent_id = mp_int(v)? as u64,
                    ("meta", MV::Map(m)) => {
                        let mut mm = BTreeMap::new();
                        for (a, b) in m {
                            match (a, b) {
                                (MV::Str(a), MV::Str(b)) => {
                                    if mm.insert(a.clone(), b.clone()).is_some() {
                                        return Err("meta key twice".into());
                                    }
                                }
                                _ => return Err("meta entry is not string->string".into()),
                            }
                        }
                        d.meta = Some(mm);
                    }
                    (k, v) => return Err(format!("unexpected span entry {k}: {v:?}")),
                }
            }
            for need in ["name", "service", "type", "resource", "start", "duration", "span_id", "trace_id", "parent_id"] {
                if !seen.contains(need) {
                    return Err(format!("span lacks {need}"));
                }
            }
            ts.push(d);
        }
        out.push(ts);
    }
    Ok(out)
}
