//! C19 / C20: the bundled reporters, driven through their public `Reporter::report` with
//! bounded-exhaustive record batches; what they send is received on loopback (UDP for Jaeger, a
//! minimal HTTP/1.1 server for Datadog, a capturing exporter for OpenTelemetry) and decoded by
//! independent decoders.

mod decode;

use std::borrow::Cow;
use std::collections::BTreeMap;
use std::collections::BTreeSet;
use std::io::Read;
use std::io::Write;
use std::net::TcpListener;
use std::net::UdpSocket;
use std::os::fd::AsRawFd;
use std::sync::mpsc;
use std::sync::Arc;
use std::sync::Mutex;
use std::time::Duration;
use std::time::Instant;
use std::time::SystemTime;

use decode::*;
use fastrace::collector::EventRecord;
use fastrace::collector::Reporter;
use fastrace::prelude::*;
use fastrace_datadog::DatadogReporter;
use fastrace_jaeger::JaegerReporter;
use fastrace_opentelemetry::OpenTelemetryReporter;
use opentelemetry::trace::SpanKind;
use opentelemetry::InstrumentationScope;
use opentelemetry::Value;
use opentelemetry_sdk::error::OTelSdkResult;
use opentelemetry_sdk::trace::SpanData;
use opentelemetry_sdk::trace::SpanExporter;
use opentelemetry_sdk::Resource;

type Props = Vec<(Cow<'static, str>, Cow<'static, str>)>;

fn rec(trace: u128, span: u64, parent: u64, begin: u64, dur: u64, name: &str, props: &[(&str, &str)], events: &[(&str, u64, &[(&str, &str)])]) -> SpanRecord {
    let p = |x: &[(&str, &str)]| -> Props { x.iter().map(|(k, v)| (Cow::Owned(k.to_string()), Cow::Owned(v.to_string()))).collect() };
    SpanRecord {
        trace_id: TraceId(trace),
        span_id: SpanId(span),
        parent_id: SpanId(parent),
        begin_time_unix_ns: begin,
        duration_ns: dur,
        name: Cow::Owned(name.to_string()),
        properties: p(props),
        events: events.iter().map(|(n, t, pr)| EventRecord { name: Cow::Owned(n.to_string()), timestamp_unix_ns: *t, properties: p(pr) }).collect(),
    }
}

struct Out {
    property: String,
    evaluations: u64,
    classes: BTreeSet<String>,
    violations: Vec<serde_json::Value>,
    samples: Vec<serde_json::Value>,
    machinery: Vec<String>,
}

impl Out {
    fn violation(&mut self, kind: &str, reporter: &str, input: &[SpanRecord], detail: String) {
        let key = format!("{reporter}:{kind}");
        if self.violations.len() < 10 && !self.violations.iter().any(|v| v["key"] == key.as_str()) {
            self.violations.push(serde_json::json!({
                "engine": "report", "key": key, "kind": kind, "reporter": reporter, "detail": detail,
                "input": records_json(input),
            }));
        }
    }
}

fn records_json(rs: &[SpanRecord]) -> serde_json::Value {
    serde_json::Value::Array(
        rs.iter()
            .map(|r| {
                serde_json::json!({
                    "trace": format!("{:x}", r.trace_id.0), "span": format!("{:x}", r.span_id.0), "parent": format!("{:x}", r.parent_id.0),
                    "begin": r.begin_time_unix_ns, "dur": r.duration_ns,
                    "name_len": r.name.len(), "name": if r.name.len() <= 64 { r.name.to_string() } else { format!("{}…", &r.name.chars().take(8).collect::<String>()) },
                    "name_full": if r.name.chars().all(|c| c == 'x') { serde_json::Value::Null } else { serde_json::Value::String(r.name.to_string()) },
                    "props": r.properties.iter().map(|(k, v)| vec![k.to_string(), v.to_string()]).collect::<Vec<_>>(),
                    "events": r.events.iter().map(|e| serde_json::json!({"name": e.name, "ts": e.timestamp_unix_ns, "props": e.properties.iter().map(|(k, v)| vec![k.to_string(), v.to_string()]).collect::<Vec<_>>()})).collect::<Vec<_>>(),
                })
            })
            .collect(),
    )
}

fn records_from_json(v: &serde_json::Value) -> Vec<SpanRecord> {
    v.as_array()
        .map(|a| {
            a.iter()
                .map(|r| {
                    let pr = |x: &serde_json::Value| -> Props {
                        x.as_array().map(|a| a.iter().map(|kv| (Cow::Owned(kv[0].as_str().unwrap_or("").to_string()), Cow::Owned(kv[1].as_str().unwrap_or("").to_string()))).collect()).unwrap_or_default()
                    };
                    let name = match r["name_full"].as_str() {
                        Some(n) => n.to_string(),
                        None => "x".repeat(r["name_len"].as_u64().unwrap_or(0) as usize),
                    };
                    SpanRecord {
                        trace_id: TraceId(u128::from_str_radix(r["trace"].as_str().unwrap_or("0"), 16).unwrap_or(0)),
                        span_id: SpanId(u64::from_str_radix(r["span"].as_str().unwrap_or("0"), 16).unwrap_or(0)),
                        parent_id: SpanId(u64::from_str_radix(r["parent"].as_str().unwrap_or("0"), 16).unwrap_or(0)),
                        begin_time_unix_ns: r["begin"].as_u64().unwrap_or(0),
                        duration_ns: r["dur"].as_u64().unwrap_or(0),
                        name: Cow::Owned(name),
                        properties: pr(&r["props"]),
                        events: r["events"]
                            .as_array()
                            .map(|a| a.iter().map(|e| EventRecord { name: Cow::Owned(e["name"].as_str().unwrap_or("").to_string()), timestamp_unix_ns: e["ts"].as_u64().unwrap_or(0), properties: pr(&e["props"]) }).collect())
                            .unwrap_or_default(),
                    }
                })
                .collect()
        })
        .unwrap_or_default()
}

// ---------------- Jaeger over loopback UDP ----------------

struct UdpSink {
    port: u16,
    rx: mpsc::Receiver<Vec<u8>>,
    ctl: UdpSocket,
}

fn udp_drops(port: u16) -> Option<u64> {
    let text = std::fs::read_to_string("/proc/net/udp").ok()?;
    for line in text.lines().skip(1) {
        let f: Vec<&str> = line.split_whitespace().collect();
        if f.len() >= 13 {
            if let Some(p) = f[1].split(':').nth(1) {
                if u16::from_str_radix(p, 16).ok() == Some(port) {
                    return f[12].parse().ok();
                }
            }
        }
    }
    None
}

impl UdpSink {
    fn new() -> UdpSink {
        let sock = UdpSocket::bind("127.0.0.1:0").expect("bind udp");
        // a large receive buffer, so that a burst of datagrams from one report() call is not dropped
        unsafe {
            let sz: libc::c_int = 64 << 20;
            let fd = sock.as_raw_fd();
            if libc::setsockopt(fd, libc::SOL_SOCKET, libc::SO_RCVBUFFORCE, &sz as *const _ as *const libc::c_void, 4) != 0 {
                libc::setsockopt(fd, libc::SOL_SOCKET, libc::SO_RCVBUF, &sz as *const _ as *const libc::c_void, 4);
            }
        }
        let port = sock.local_addr().unwrap().port();
        let (tx, rx) = mpsc::channel();
        std::thread::spawn(move || {
            let mut buf = vec![0u8; 70_000];
            loop {
                match sock.recv_from(&mut buf) {
                    Ok((n, _)) => {
                        if tx.send(buf[..n].to_vec()).is_err() {
                            break;
                        }
                    }
                    Err(_) => break,
                }
            }
        });
        UdpSink { port, rx, ctl: UdpSocket::bind("127.0.0.1:0").unwrap() }
    }

    /// Everything that arrived since the last call. A sentinel datagram sent after `report()`
    /// returned marks the end: loopback delivery is synchronous and FIFO per receiving socket.
    fn drain(&self) -> Result<Vec<Vec<u8>>, String> {
        let sentinel = b"\0END-OF-REPORT\0";
        self.ctl.send_to(sentinel, ("127.0.0.1", self.port)).map_err(|e| e.to_string())?;
        let mut out = Vec::new();
        loop {
            match self.rx.recv_timeout(Duration::from_secs(5)) {
                Ok(d) if d == sentinel => return Ok(out),
                Ok(d) => out.push(d),
                Err(_) => return Err("sentinel datagram did not arrive".into()),
            }
        }
    }
}

fn jaeger_image(r: &SpanRecord) -> JSpan {
    JSpan {
        trace_low: r.trace_id.0 as u64 as i64,
        trace_high: (r.trace_id.0 >> 64) as u64 as i64,
        span_id: r.span_id.0 as i64,
        parent: r.parent_id.0 as i64,
        name: r.name.to_string(),
        flags: 1,
        start: (r.begin_time_unix_ns / 1000) as i64,
        duration: (r.duration_ns / 1000) as i64,
        tags: r.properties.iter().map(|(k, v)| (k.to_string(), v.to_string())).collect(),
        logs: r
            .events
            .iter()
            .map(|e| {
                let mut f = vec![("name".to_string(), e.name.to_string())];
                f.extend(e.properties.iter().map(|(k, v)| (k.to_string(), v.to_string())));
                ((e.timestamp_unix_ns / 1000) as i64, f)
            })
            .collect(),
        has_references: false,
    }
}

struct Jaeger {
    sink: UdpSink,
    /// report() runs on one helper thread so that a call that never returns is noticed
    jobs: mpsc::Sender<Vec<SpanRecord>>,
    done: mpsc::Receiver<bool>,
    drops0: Option<u64>,
    /// a report() call did not return: the reporter is unusable from here on
    stuck: bool,
}

impl Jaeger {
    fn new() -> Jaeger {
        let sink = UdpSink::new();
        let reporter = JaegerReporter::new(format!("127.0.0.1:{}", sink.port).parse().unwrap(), "svc-é").expect("jaeger reporter");
        let drops0 = udp_drops(sink.port);
        let (jobs, job_rx) = mpsc::channel::<Vec<SpanRecord>>();
        let (done_tx, done) = mpsc::channel();
        std::thread::spawn(move || {
            let mut reporter = reporter;
            while let Ok(b) = job_rx.recv() {
                let ok = std::panic::catch_unwind(std::panic::AssertUnwindSafe(|| reporter.report(b))).is_ok();
                if done_tx.send(ok).is_err() {
                    break;
                }
            }
        });
        Jaeger { sink, jobs, done, drops0, stuck: false }
    }

    /// Reports the batch; returns the datagrams (sizes) and the decoded spans in order.
    fn send(&mut self, batch: &[SpanRecord], deadline: Duration) -> Result<(Vec<usize>, Vec<JSpan>), String> {
        if self.stuck {
            return Err("an earlier report() call never returned".into());
        }
        self.jobs.send(batch.to_vec()).map_err(|_| "reporter thread is gone (it panicked?)".to_string())?;
        match self.done.recv_timeout(deadline) {
            Err(_) => {
                self.stuck = true;
                return Err(format!("VIOLATION:report() did not return within {deadline:?}"));
            }
            Ok(false) => return Err("VIOLATION:report() panicked".into()),
            Ok(true) => {}
        }
        let dgrams = self.sink.drain()?;
        let mut sizes = Vec::new();
        let mut spans = Vec::new();
        for d in &dgrams {
            sizes.push(d.len());
            let (svc, s) = decode_emit_batch(d).map_err(|e| format!("VIOLATION:datagram is not a well-formed emitBatch message: {e}"))?;
            if svc != "svc-é" {
                return Err(format!("VIOLATION:service name {svc:?}"));
            }
            spans.extend(s);
        }
        Ok((sizes, spans))
    }

    fn check_no_drops(&self) -> Result<(), String> {
        match (self.drops0, udp_drops(self.sink.port)) {
            (Some(a), Some(b)) if a == b => Ok(()),
            (a, b) => Err(format!("the kernel dropped datagrams on the loopback socket (drops {a:?} -> {b:?}); results are not trustworthy")),
        }
    }
}

// ---------------- Datadog over loopback HTTP ----------------

struct HttpSink {
    port: u16,
    rx: mpsc::Receiver<(String, BTreeMap<String, String>, Vec<u8>)>,
}

impl HttpSink {
    fn new() -> HttpSink {
        let l = TcpListener::bind("127.0.0.1:0").expect("bind tcp");
        let port = l.local_addr().unwrap().port();
        let (tx, rx) = mpsc::channel();
        std::thread::spawn(move || {
            for conn in l.incoming() {
                let Ok(mut c) = conn else { continue };
                let _ = c.set_read_timeout(Some(Duration::from_secs(5)));
                let mut buf = Vec::new();
                let mut tmp = [0u8; 65536];
                let mut head_end = None;
                let mut need = 0usize;
                loop {
                    match c.read(&mut tmp) {
                        Ok(0) | Err(_) => break,
                        Ok(n) => buf.extend_from_slice(&tmp[..n]),
                    }
                    if head_end.is_none() {
                        if let Some(p) = buf.windows(4).position(|w| w == b"\r\n\r\n") {
                            head_end = Some(p + 4);
                            let head = String::from_utf8_lossy(&buf[..p]).to_lowercase();
                            need = head.lines().find_map(|l| l.strip_prefix("content-length:").map(|v| v.trim().parse::<usize>().unwrap_or(0))).unwrap_or(0);
                        }
                    }
                    if let Some(h) = head_end {
                        if buf.len() >= h + need {
                            break;
                        }
                    }
                }
                let Some(h) = head_end else { continue };
                let head = String::from_utf8_lossy(&buf[..h]).to_string();
                let mut lines = head.lines();
                let request_line = lines.next().unwrap_or("").to_string();
                let headers: BTreeMap<String, String> = lines.filter_map(|l| l.split_once(':').map(|(k, v)| (k.trim().to_lowercase(), v.trim().to_string()))).collect();
                let body = buf[h..(h + need).min(buf.len())].to_vec();
                let _ = c.write_all(b"HTTP/1.1 200 OK\r\nContent-Length: 2\r\nConnection: close\r\n\r\n{}");
                let _ = c.flush();
                if tx.send((request_line, headers, body)).is_err() {
                    break;
                }
            }
        });
        HttpSink { port, rx }
    }
}

fn dd_image(r: &SpanRecord) -> DSpan {
    let mut meta = BTreeMap::new();
    for (k, v) in &r.properties {
        meta.insert(k.to_string(), v.to_string());
    }
    DSpan {
        name: r.name.to_string(),
        service: "svc".into(),
        ty: "web".into(),
        resource: "res".into(),
        start: r.begin_time_unix_ns as i64 as i128,
        duration: r.duration_ns as i64 as i128,
        meta: if r.properties.is_empty() { None } else { Some(meta) },
        error: 0,
        span_id: r.span_id.0,
        trace_id: r.trace_id.0 as u64,
        parent_id: r.parent_id.0,
    }
}

// ---------------- OpenTelemetry capture ----------------

#[derive(Debug, Clone)]
struct Capture(Arc<Mutex<Vec<Vec<SpanData>>>>);

impl SpanExporter for Capture {
    fn export(&self, batch: Vec<SpanData>) -> impl std::future::Future<Output = OTelSdkResult> + Send {
        self.0.lock().unwrap().push(batch);
        std::future::ready(Ok(()))
    }
}

fn unix_ns(t: SystemTime) -> u128 {
    t.duration_since(SystemTime::UNIX_EPOCH).map(|d| d.as_nanos()).unwrap_or(0)
}

fn otel_check(r: &SpanRecord, d: &SpanData) -> Result<(), String> {
    let tid = u128::from_be_bytes(d.span_context.trace_id().to_bytes());
    let sid = u64::from_be_bytes(d.span_context.span_id().to_bytes());
    let pid = u64::from_be_bytes(d.parent_span_id.to_bytes());
    if tid != r.trace_id.0 {
        return Err(format!("trace id {tid:x} != {:x}", r.trace_id.0));
    }
    if sid != r.span_id.0 {
        return Err(format!("span id {sid:x} != {:x}", r.span_id.0));
    }
    if pid != r.parent_id.0 {
        return Err(format!("parent id {pid:x} != {:x}", r.parent_id.0));
    }
    if d.name != r.name {
        return Err(format!("name {:?} != {:?}", d.name, r.name));
    }
    if unix_ns(d.start_time) != r.begin_time_unix_ns as u128 {
        return Err(format!("start time {} != {}", unix_ns(d.start_time), r.begin_time_unix_ns));
    }
    if unix_ns(d.end_time) != r.begin_time_unix_ns as u128 + r.duration_ns as u128 {
        return Err(format!("end time {} != {}", unix_ns(d.end_time), r.begin_time_unix_ns as u128 + r.duration_ns as u128));
    }
    let kv = |a: &[opentelemetry::KeyValue]| -> Vec<(String, String)> {
        a.iter()
            .map(|kv| {
                (
                    kv.key.as_str().to_string(),
                    match &kv.value {
                        Value::String(s) => s.as_str().to_string(),
                        other => format!("<non-string {other:?}>"),
                    },
                )
            })
            .collect()
    };
    let want: Vec<(String, String)> = r.properties.iter().map(|(k, v)| (k.to_string(), v.to_string())).collect();
    if kv(&d.attributes) != want {
        return Err(format!("attributes {:?} != {:?}", kv(&d.attributes), want));
    }
    if d.events.events.len() != r.events.len() {
        return Err(format!("{} events != {}", d.events.events.len(), r.events.len()));
    }
    for (e, w) in d.events.events.iter().zip(r.events.iter()) {
        if e.name != w.name || unix_ns(e.timestamp) != w.timestamp_unix_ns as u128 {
            return Err(format!("event {:?}@{} != {:?}@{}", e.name, unix_ns(e.timestamp), w.name, w.timestamp_unix_ns));
        }
        let want: Vec<(String, String)> = w.properties.iter().map(|(k, v)| (k.to_string(), v.to_string())).collect();
        if kv(&e.attributes) != want {
            return Err(format!("event attributes {:?} != {want:?}", kv(&e.attributes)));
        }
    }
    if d.span_kind != SpanKind::Server {
        return Err("span kind changed".into());
    }
    Ok(())
}

// ---------------- input alphabets ----------------

const NOW: u64 = 1_790_000_000_000_000_000;

fn c19_single_records(reduced: bool) -> Vec<SpanRecord> {
    let big = "n".repeat(300);
    let traces: Vec<u128> = vec![1, 1u128 << 63, 1u128 << 64, 1u128 << 127, u128::MAX, 0x0123456789abcdef_fedcba9876543210];
    let ids: Vec<(u64, u64)> = if reduced {
        vec![(1, 0), (u64::MAX, 1u64 << 63), (0x7fff_ffff_ffff_ffff, u64::MAX)]
    } else {
        vec![(1, 0), (1u64 << 63, 1), (u64::MAX, 1u64 << 63), (0x7fff_ffff_ffff_ffff, u64::MAX), (0x8000_0000_0000_0001, 0x7fff_ffff_ffff_ffff)]
    };
    let names: Vec<&str> = if reduced { vec!["", "op", "é😀"] } else { vec!["", "op", "é", "😀", &big] };
    let propsets: Vec<Vec<(&str, &str)>> = vec![vec![], vec![("k", "v")], vec![("k", "v1"), ("k", "v2")], vec![("", ""), ("é", "😀")], vec![("a", &big), ("b", "")]];
    let e1: &[(&str, &str)] = &[("ek", "ev")];
    let e0: &[(&str, &str)] = &[];
    let eventsets: Vec<Vec<(&str, u64, &[(&str, &str)])>> = if reduced {
        vec![vec![], vec![("e", NOW + 5, e1)]]
    } else {
        vec![vec![], vec![("e", NOW + 5, e0)], vec![("e1", NOW + 1_001, e1), ("", 999, e0)], vec![("é", u64::MAX >> 1, e1)]]
    };
    let begins: Vec<u64> = if reduced { vec![0, 1_001, NOW, (1u64 << 63) - 1] } else { vec![0, 1, 999, 1_000, 1_001, NOW, (1u64 << 63) - 1] };
    let durs: Vec<u64> = if reduced { vec![0, 1_999] } else { vec![0, 999, 1_000, 1_999, (1u64 << 62)] };
    let mut out = Vec::new();
    for t in &traces {
        for (s, p) in &ids {
            for n in &names {
                for ps in &propsets {
                    for es in &eventsets {
                        for b in &begins {
                            for d in &durs {
                                out.push(rec(*t, *s, *p, *b, *d, n, ps, es));
                            }
                        }
                    }
                }
            }
        }
    }
    out
}

fn c19_batches(out_single: &[SpanRecord]) -> Vec<Vec<SpanRecord>> {
    // all batches of <= 3 records over a reduced alphabet of 6 shapes, plus an empty and a large one
    let shapes: Vec<SpanRecord> = vec![
        rec(1, 1, 0, NOW, 10_000, "a", &[], &[]),
        rec(u128::MAX, u64::MAX, 1, NOW + 1, 1_999, "b", &[("k", "v")], &[("e", NOW + 2, &[("ek", "ev")])]),
        rec(1u128 << 64, 1u64 << 63, u64::MAX, 999, 0, "", &[("k", "1"), ("k", "2")], &[]),
        rec(7, 9, 8, NOW, 5_000, "é😀", &[("é", "😀")], &[("e1", NOW, &[]), ("e2", NOW + 3_000, &[("x", "y")])]),
        out_single[out_single.len() / 3].clone(),
        out_single[out_single.len() / 2].clone(),
    ];
    let mut v: Vec<Vec<SpanRecord>> = vec![vec![]];
    for a in &shapes {
        v.push(vec![a.clone()]);
        for b in &shapes {
            v.push(vec![a.clone(), b.clone()]);
            for c in &shapes {
                v.push(vec![a.clone(), b.clone(), c.clone()]);
            }
        }
    }
    // a record too large for one Jaeger datagram among normal ones, at the front, middle and end
    let huge = "h".repeat(9000);
    for pos in [0usize, 3, 6] {
        let mut b: Vec<SpanRecord> = (0..6u64).map(|i| rec(0xB16, i + 1, i, NOW + i, 1_000, &format!("n{i}"), &[("i", "x")], &[])).collect();
        b.insert(pos, rec(0xB16, 99, 0, NOW, 1_000, "huge", &[("payload", &huge)], &[]));
        v.push(b);
    }
    // many distinct traces in one batch (the collector merges every trace that finishes within
    // one report interval into one report call)
    for n in [15u64, 16, 17, 40, 300] {
        v.push((0..n).map(|i| rec((0xD00 + i) as u128 | ((i as u128) << 64), i + 1, 0, NOW + i, 1_000 + i, &format!("t{i}"), &[("k", "v")], &[])).collect());
    }
    let large: Vec<SpanRecord> = (0..1000u64).map(|i| rec(0xABCD, i + 1, i, NOW + i, i * 1_000, &format!("span{i}"), &[("i", &i.to_string())], &[])).collect();
    v.push(large);
    // records with many properties and many events (40 each, the 33rd key repeated), alone and
    // between ordinary records
    {
        let keys: Vec<String> = (0..40).map(|i| if i == 33 { "k7".to_string() } else { format!("k{i}") }).collect();
        let vals: Vec<String> = (0..40).map(|i| format!("value-{i}")).collect();
        let props: Vec<(&str, &str)> = keys.iter().zip(vals.iter()).map(|(k, v)| (k.as_str(), v.as_str())).collect();
        let enames: Vec<String> = (0..40).map(|i| format!("event-{i}")).collect();
        let eprops: Vec<(&str, &str)> = props[..17].to_vec();
        let events: Vec<(&str, u64, &[(&str, &str)])> = enames.iter().enumerate().map(|(i, n)| (n.as_str(), NOW + 10 * i as u64, if i % 5 == 0 { &eprops[..] } else { &eprops[..1] })).collect();
        let fat = rec(0xFA7, 77, 76, NOW, 50_000, "fat", &props, &events);
        v.push(vec![fat.clone()]);
        v.push(vec![rec(0xFA7, 76, 0, NOW, 60_000, "before", &[("k", "v")], &[]), fat, rec(0xFA7, 78, 76, NOW + 1, 1_000, "after", &[], &[("e", NOW + 2, &[])])]);
    }
    // batch sizes around round numbers and powers of two (a reporter that cuts a batch into
    // requests / packets must not lose the remainder)
    for n in [255u64, 256, 257, 999, 1001, 1023, 1024, 1025, 2047, 2049, 2501, 4097, 10_001] {
        v.push((0..n).map(|i| rec(0xBA7C | ((n as u128) << 64), i + 1, 0, NOW + i, 1_000, "s", &[], &[])).collect());
    }
    // keys and values that mean something to one of the backends (semantic conventions, reserved
    // tags, field names of the wire formats): a property is a property whatever it is called.
    // One record per (key, value), as a span property and as an event property; in two batches.
    let keys = [
        "span.kind", "error", "error.msg", "error.message", "error.type", "error.stack", "otel.status_code", "otel.status_description",
        "otel.library.name", "otel.scope.name", "service.name", "service", "resource.name", "resource", "span.type", "type", "name",
        "operation", "operation.name", "http.status_code", "http.method", "sampling.priority", "_sampling_priority_v1", "_dd.measured",
        "_dd.origin", "env", "version", "language", "jaeger.version", "hostname", "ip", "internal.span.format", "peer.service",
        "component", "db.type", "span_id", "trace_id", "parent_id", "start", "duration", "meta", "metrics", "level", "event", "message",
        "timestamp", "sampler.type", "sampler.param", "w3c.tracestate", "tracestate", "status", "status.code", "kind",
    ];
    let values = ["client", "server", "internal", "ERROR", "OK", "true", "1", "", "batch-job"];
    let mut as_props = Vec::new();
    let mut as_event_props = Vec::new();
    let mut id = 0u64;
    for k in keys {
        for val in values {
            id += 1;
            as_props.push(rec(0xD1C7, id, 0, NOW + id, 1_000, &format!("p{id}"), &[(k, val)], &[]));
            as_event_props.push(rec(0xD1C8, id, 0, NOW + id, 1_000, &format!("q{id}"), &[], &[(k, NOW + id, &[(k, val)])]));
        }
    }
    v.push(as_props);
    v.push(as_event_props);
    v
}

/// Quick tier for the Datadog reporter: the full product of trace ids x id pairs (the fields the
/// format narrows), every other field varied one at a time around a default record, all batches
/// of <= 2 records over 4 shapes, the empty batch and the 1000-record batch.
fn dd_quick_inputs(batches: &[Vec<SpanRecord>]) -> Vec<Vec<SpanRecord>> {
    let big = "n".repeat(300);
    let mut v: Vec<Vec<SpanRecord>> = Vec::new();
    for t in [1u128, 1u128 << 63, 1u128 << 64, 1u128 << 127, u128::MAX, 0x0123456789abcdef_fedcba9876543210] {
        for (s, p) in [(1u64, 0u64), (u64::MAX, 1u64 << 63), (0x7fff_ffff_ffff_ffff, u64::MAX), (1u64 << 63, 1)] {
            v.push(vec![rec(t, s, p, NOW, 1_999, "op", &[("k", "v")], &[])]);
        }
    }
    for n in ["", "é", "😀", &big] {
        v.push(vec![rec(5, 6, 7, NOW, 1_999, n, &[("k", "v")], &[])]);
    }
    let propsets: Vec<Vec<(&str, &str)>> = vec![vec![], vec![("k", "v1"), ("k", "v2")], vec![("", ""), ("é", "😀")], vec![("a", &big), ("b", "")], vec![("k", "2"), ("j", "1"), ("k", "3")]];
    for ps in &propsets {
        v.push(vec![rec(5, 6, 7, NOW, 1_999, "op", ps, &[("e", NOW, &[("ek", "ev")])])]);
    }
    for b in [0u64, 1, 999, 1_000, 1_001, (1u64 << 63) - 1] {
        for d in [0u64, 999, 1u64 << 62] {
            v.push(vec![rec(5, 6, 7, b, d, "op", &[], &[])]);
        }
    }
    v.extend(batches.iter().filter(|b| b.len() != 3).cloned());
    v
}

// ---------------- C19 ----------------

fn run_c19(thorough: bool, out: &mut Out) {
    let singles = c19_single_records(false);
    let reduced = c19_single_records(true);
    let batches = c19_batches(&singles);
    out.samples.push(records_json(&singles[singles.len() / 7..singles.len() / 7 + 1]));
    out.samples.push(records_json(&batches[batches.len() / 2]));

    // Jaeger
    let mut j = Jaeger::new();
    let jaeger_inputs: Vec<Vec<SpanRecord>> = singles.iter().map(|r| vec![r.clone()]).chain(batches.iter().cloned()).collect();
    for input in &jaeger_inputs {
        out.evaluations += 1;
        match j.send(input, Duration::from_secs(10)) {
            Err(e) => match e.strip_prefix("VIOLATION:") {
                Some(v) => out.violation("malformed", "jaeger", input, v.to_string()),
                None => out.machinery.push(format!("jaeger: {e}")),
            },
            Ok((sizes, spans)) => {
                // a record whose own encoding cannot fit a datagram is outside what the format can carry (C20)
                let want: Vec<JSpan> = input.iter().filter(|r| r.properties.iter().map(|(k, v)| k.len() + v.len()).sum::<usize>() + r.name.len() < 7000).map(jaeger_image).collect();
                out.classes.insert(format!("jaeger:{}dgrams:{}", sizes.len().min(3), input.len().min(4)));
                if spans.len() != want.len() {
                    out.violation("count", "jaeger", input, format!("{} spans received for {} records", spans.len(), want.len()));
                } else {
                    for (g, w) in spans.iter().zip(want.iter()) {
                        if g != w {
                            out.violation(&jaeger_field_diff(g, w), "jaeger", input, format!("received {g:?}\nexpected {w:?}"));
                            break;
                        }
                    }
                }
            }
        }
    }
    if let Err(e) = j.check_no_drops() {
        out.machinery.push(e);
    }

    // OpenTelemetry
    let cap = Capture(Arc::new(Mutex::new(Vec::new())));
    let mut o = OpenTelemetryReporter::new(cap.clone(), SpanKind::Server, Cow::Owned(Resource::builder().build()), InstrumentationScope::builder("vx").build());
    for input in &jaeger_inputs {
        out.evaluations += 1;
        cap.0.lock().unwrap().clear();
        if std::panic::catch_unwind(std::panic::AssertUnwindSafe(|| o.report(input.clone()))).is_err() {
            out.violation("panic", "opentelemetry", input, "report() panicked".into());
            continue;
        }
        let got: Vec<SpanData> = cap.0.lock().unwrap_or_else(|e| e.into_inner()).drain(..).flatten().collect();
        out.classes.insert(format!("otel:{}", input.len().min(4)));
        if got.len() != input.len() {
            out.violation("count", "opentelemetry", input, format!("{} SpanData for {} records", got.len(), input.len()));
            continue;
        }
        for (r, d) in input.iter().zip(got.iter()) {
            if let Err(e) = otel_check(r, d) {
                out.violation(&format!("field:{}", e.split_whitespace().next().unwrap_or("")), "opentelemetry", input, e);
                break;
            }
        }
    }

    // Datadog (each report makes a fresh HTTP client: slower, so the full product of a reduced
    // alphabet, spread over worker threads with a listener each)
    // (every Datadog report builds a fresh HTTP client, about a CPU-second each)
    let dd_inputs: Vec<Vec<SpanRecord>> = if thorough {
        reduced.iter().map(|r| vec![r.clone()]).chain(batches.iter().cloned()).collect()
    } else {
        dd_quick_inputs(&batches)
    };
    let nthreads = 12;
    let chunks: Vec<Vec<Vec<SpanRecord>>> = (0..nthreads).map(|k| dd_inputs.iter().skip(k).step_by(nthreads).cloned().collect()).collect();
    let results: Vec<(u64, Vec<(String, Vec<SpanRecord>, String)>, Vec<String>, BTreeSet<String>)> = std::thread::scope(|sc| {
        let hs: Vec<_> = chunks
            .into_iter()
            .map(|chunk| {
                sc.spawn(move || {
                    let sink = HttpSink::new();
                    let mut rep = DatadogReporter::new(format!("127.0.0.1:{}", sink.port).parse().unwrap(), "svc", "res", "web");
                    let mut evals = 0;
                    let mut viol = Vec::new();
                    let mut mach = Vec::new();
                    let mut classes = BTreeSet::new();
                    for input in chunk {
                        evals += 1;
                        if std::panic::catch_unwind(std::panic::AssertUnwindSafe(|| rep.report(input.clone()))).is_err() {
                            viol.push(("panic".to_string(), input.clone(), "report() panicked".to_string()));
                            continue;
                        }
                        if input.is_empty() {
                            if sink.rx.try_recv().is_ok() {
                                viol.push(("request-for-empty-batch".to_string(), input.clone(), "a request was sent for an empty batch".to_string()));
                            }
                            continue;
                        }
                        // report() is synchronous: whatever it sent has been answered by now. A batch
                        // may legitimately travel in more than one request; the records of all of
                        // them, in order, are what was transmitted.
                        let mut requests = Vec::new();
                        match sink.rx.recv_timeout(Duration::from_secs(10)) {
                            Ok(x) => requests.push(x),
                            Err(_) => {
                                viol.push(("no-request".to_string(), input.clone(), "no HTTP request arrived".to_string()));
                                continue;
                            }
                        }
                        while let Ok(x) = sink.rx.try_recv() {
                            requests.push(x);
                        }
                        let mut got: Vec<DSpan> = Vec::new();
                        let mut well_formed = true;
                        for (line, headers, body) in &requests {
                            if !line.starts_with("POST /v0.4/traces ") {
                                viol.push(("request-line".into(), input.clone(), line.clone()));
                            }
                            if headers.get("content-type").map(|s| s.as_str()) != Some("application/msgpack") {
                                viol.push(("content-type".into(), input.clone(), format!("{headers:?}")));
                            }
                            match decode_dd(body) {
                                Err(e) => {
                                    well_formed = false;
                                    viol.push(("malformed".into(), input.clone(), format!("body is not a well-formed v0.4 trace array: {e}")));
                                }
                                Ok(traces) => got.extend(traces.into_iter().flatten()),
                            }
                        }
                        if well_formed {
                            classes.insert(format!("datadog:{}", input.len().min(4)));
                            let want: Vec<DSpan> = input.iter().map(dd_image).collect();
                            if got.len() != want.len() {
                                viol.push(("count".into(), input.clone(), format!("{} spans in {} request(s) for {} records", got.len(), requests.len(), want.len())));
                            } else if let Some((g, w)) = got.iter().zip(want.iter()).find(|(g, w)| g != w) {
                                viol.push((dd_field_diff(g, w), input.clone(), format!("received {g:?}\nexpected {w:?}")));
                            }
                        }
                    }
                    (evals, viol, mach, classes)
                })
            })
            .collect();
        hs.into_iter().map(|h| h.join().unwrap()).collect()
    });
    for (e, viol, mach, classes) in results {
        out.evaluations += e;
        out.machinery.extend(mach);
        out.classes.extend(classes);
        for (k, input, d) in viol {
            out.violation(&k, "datadog", &input, d);
        }
    }
}

fn jaeger_field_diff(g: &JSpan, w: &JSpan) -> String {
    let f = if g.trace_low != w.trace_low || g.trace_high != w.trace_high {
        "trace-id"
    } else if g.span_id != w.span_id {
        "span-id"
    } else if g.parent != w.parent {
        "parent-id"
    } else if g.name != w.name {
        "name"
    } else if g.start != w.start {
        "start-time"
    } else if g.duration != w.duration {
        "duration"
    } else if g.tags != w.tags {
        "tags"
    } else if g.logs != w.logs {
        "logs"
    } else if g.flags != w.flags {
        "flags"
    } else {
        "references"
    };
    format!("field:{f}")
}

fn dd_field_diff(g: &DSpan, w: &DSpan) -> String {
    let f = if g.trace_id != w.trace_id {
        "trace-id"
    } else if g.span_id != w.span_id {
        "span-id"
    } else if g.parent_id != w.parent_id {
        "parent-id"
    } else if g.name != w.name {
        "name"
    } else if g.start != w.start {
        "start-time"
    } else if g.duration != w.duration {
        "duration"
    } else if g.meta != w.meta {
        "meta"
    } else {
        "fixed-fields"
    };
    format!("field:{f}")
}

// ---------------- C20 ----------------

fn sized(id: u64, name_len: usize) -> SpanRecord {
    rec(0xC20, id, 0, NOW, 1_000, &"x".repeat(name_len), &[], &[])
}

/// The reporter's packet limit, as the statement gives it.
const LIMIT: usize = 8000;

fn c20_check(j: &mut Jaeger, fits_alone: &mut BTreeMap<usize, bool>, input: &[SpanRecord], out: &mut Out) {
    out.evaluations += 1;
    // which spans fit alone is decided differentially: report it alone, does a datagram arrive?
    for r in input {
        let l = r.name.len();
        if !fits_alone.contains_key(&l) {
            let fits = match j.send(&[r.clone()], Duration::from_secs(5)) {
                Ok((sizes, _)) => !sizes.is_empty(),
                Err(_) => false,
            };
            fits_alone.insert(l, fits);
        }
    }
    if j.stuck {
        return;
    }
    match j.send(input, Duration::from_secs(5)) {
        Err(e) => match e.strip_prefix("VIOLATION:") {
            Some(v) => out.violation(if v.contains("did not return") { "report-does-not-return" } else { "malformed" }, "jaeger", input, v.to_string()),
            None => out.machinery.push(format!("jaeger: {e}")),
        },
        Ok((sizes, spans)) => {
            out.classes.insert(format!("{}dgrams:{}skipped", sizes.len().min(6), input.iter().filter(|r| !fits_alone[&r.name.len()]).count().min(3)));
            if let Some(s) = sizes.iter().find(|s| **s >= LIMIT) {
                out.violation("packet-too-large", "jaeger", input, format!("a datagram of {s} bytes was sent (limit {LIMIT})"));
            }
            let want: Vec<i64> = input.iter().filter(|r| fits_alone[&r.name.len()]).map(|r| r.span_id.0 as i64).collect();
            let got: Vec<i64> = spans.iter().map(|s| s.span_id).collect();
            if got != want {
                let kind = if got.len() < want.len() {
                    "span-lost"
                } else if got.len() > want.len() {
                    "span-duplicated"
                } else {
                    "span-order"
                };
                out.violation(kind, "jaeger", input, format!("span ids received {got:?}, expected {want:?} (datagram sizes {sizes:?})"));
            }
        }
    }
}

fn run_c20(thorough: bool, out: &mut Out) {
    let mut j = Jaeger::new();
    let mut fits: BTreeMap<usize, bool> = BTreeMap::new();
    // find the name length at which a single span's datagram reaches the limit
    let mut edge = None;
    for l in 7800..8100usize {
        let (sizes, _) = j.send(&[sized(1, l)], Duration::from_secs(10)).unwrap_or((vec![], vec![]));
        if sizes.is_empty() {
            edge = Some(l);
            break;
        }
    }
    let Some(edge) = edge else {
        out.machinery.push("could not locate the single-span size limit".into());
        return;
    };
    // overhead: datagram size of a span with an empty name
    let (s0, _) = j.send(&[sized(1, 0)], Duration::from_secs(10)).unwrap_or((vec![0], vec![]));
    let overhead = s0.first().copied().unwrap_or(60);
    // size classes (name lengths): tiny, third of a packet, just over half, just under the limit, oversize
    let classes = [1usize, LIMIT / 3, LIMIT / 2 + 50, edge - 1, edge + 1000];
    let nmax = if thorough { 6 } else { 5 };
    let mut idx = vec![0usize; 1];
    let mut total = 0u64;
    loop {
        let input: Vec<SpanRecord> = idx.iter().enumerate().map(|(i, c)| sized(i as u64 + 1, classes[*c])).collect();
        if total == 333 {
            out.samples.push(serde_json::json!({"name_lengths": input.iter().map(|r| r.name.len()).collect::<Vec<_>>()}));
        }
        c20_check(&mut j, &mut fits, &input, out);
        total += 1;
        // odometer over 5 classes, lengths 1..=nmax
        let mut k = idx.len();
        loop {
            if k == 0 {
                idx = vec![0; idx.len() + 1];
                break;
            }
            k -= 1;
            idx[k] += 1;
            if idx[k] < classes.len() {
                break;
            }
            idx[k] = 0;
        }
        if idx.len() > nmax {
            break;
        }
    }
    // boundary walks: one span across the limit, and pairs whose sum crosses it
    for l in edge.saturating_sub(25)..edge + 25 {
        c20_check(&mut j, &mut fits, &[sized(1, l)], out);
        c20_check(&mut j, &mut fits, &[sized(1, 1), sized(2, l), sized(3, 1)], out);
    }
    let half = (LIMIT - 2 * overhead) / 2;
    for d in 0..60usize {
        let a = half + d - 30;
        c20_check(&mut j, &mut fits, &[sized(1, a), sized(2, half)], out);
        c20_check(&mut j, &mut fits, &[sized(1, a), sized(2, half), sized(3, 1)], out);
    }
    // boundary walks with many spans in the datagram (the list header grows at 15 and at 128
    // elements): n equal spans that together stay a little below the limit, then one of them
    // grown byte by byte until the batch no longer fits one datagram (and 40 bytes beyond)
    {
        // encoded size of one more span with an empty name, measured on two-span datagrams
        let (s2, _) = j.send(&[sized(1, 0), sized(2, 0)], Duration::from_secs(10)).unwrap_or((vec![0], vec![]));
        let per_span = s2.first().copied().unwrap_or(2 * overhead).saturating_sub(overhead).max(20);
        for n in [14usize, 15, 16, 20, 127, 128, 140] {
            // name length such that n spans take about LIMIT - 300 bytes
            let base = ((LIMIT - 300).saturating_sub(overhead)) / n;
            let name = base.saturating_sub(per_span);
            for grow in 0..360usize {
                let mut input: Vec<SpanRecord> = (0..n).map(|i| sized(i as u64 + 1, name)).collect();
                input[n / 2] = sized(n as u64 / 2 + 1, name + grow);
                c20_check(&mut j, &mut fits, &input, out);
            }
        }
    }
    // many small spans: the splitter must still deliver each exactly once, in order
    for n in [9usize, 64, 257, 1000] {
        let input: Vec<SpanRecord> = (0..n).map(|i| sized(i as u64 + 1, 40 + (i * 37) % 400)).collect();
        c20_check(&mut j, &mut fits, &input, out);
        let mut with_big = input.clone();
        with_big.insert(n / 2, sized(5000, edge + 10));
        with_big.insert(0, sized(5001, edge + 10));
        with_big.push(sized(5002, edge + 10));
        c20_check(&mut j, &mut fits, &with_big, out);
    }
    out.samples.push(serde_json::json!({"single_span_name_length_at_which_nothing_is_sent": edge, "datagram_overhead_bytes": overhead}));
    if let Err(e) = j.check_no_drops() {
        out.machinery.push(e);
    }
}

fn replay(path: &str) -> i32 {
    let v: serde_json::Value = serde_json::from_str(&std::fs::read_to_string(path).expect("replay file")).expect("json");
    let viol = &v["violation"];
    let prop = v["property"].as_str().unwrap_or("C19").to_string();
    let input = records_from_json(&viol["input"]);
    let key = viol["key"].as_str().unwrap_or("").to_string();
    let mut out = Out { property: prop.clone(), evaluations: 0, classes: BTreeSet::new(), violations: vec![], samples: vec![], machinery: vec![] };
    println!("input: {}", records_json(&input));
    if prop == "C20" {
        let mut j = Jaeger::new();
        let mut fits = BTreeMap::new();
        c20_check(&mut j, &mut fits, &input, &mut out);
    } else {
        // C19 sweeps are cheap enough to repeat in full
        run_c19(false, &mut out);
    }
    for x in &out.violations {
        println!("  {}: {}", x["key"], x["detail"]);
    }
    if out.violations.iter().any(|x| x["key"] == key.as_str()) {
        println!("VIOLATION property={prop} replay={path}");
        1
    } else {
        println!("not reproduced");
        0
    }
}

fn main() {
    let args: Vec<String> = std::env::args().collect();
    if args.get(1).map(|s| s.as_str()) == Some("replay") {
        std::process::exit(replay(&args[2]));
    }
    let prop = args.get(1).cloned().unwrap_or_else(|| "C19".into());
    let tier = args.get(2).cloned().unwrap_or_else(|| "quick".into());
    let root = std::env::var("VERIF_ROOT").unwrap_or_else(|_| "/verif".into());
    let t0 = Instant::now();
    std::panic::set_hook(Box::new(|_| {}));
    let mut out = Out { property: prop.clone(), evaluations: 0, classes: BTreeSet::new(), violations: vec![], samples: vec![], machinery: vec![] };
    let (rule, assumptions): (&str, Vec<&str>) = if prop == "C19" {
        run_c19(tier == "thorough", &mut out);
        (
            "every single-record batch over the product of field alphabets (6 trace ids incl. top bits, 5 span/parent id pairs incl. top bits, 5 names incl. empty/2-byte/4-byte/300 B, 5 property lists incl. duplicate and empty keys, 4 event lists, 7 begin times, 5 durations) through the Jaeger and OpenTelemetry reporters, through the Datadog reporter (about a CPU-second per report) the full product of a reduced alphabet in the thorough tier and, in the quick tier, trace ids x id pairs in full plus every other field varied one at a time; all batches of <= 3 records over 6 shapes, the empty batch, a 1000-record batch, records with 40 properties and 40 events, batches of 255..10001 records (13 sizes around round numbers and powers of two) and two batches with one record per (key, value) over 53 keys that mean something to a backend (span.kind, error, otel.status_code, service.name, resource.name, sampling.priority, field names of the wire formats, ...) x 9 values, as span properties and as event properties, through all three; distinct_nontrivial counts distinct (reporter, batch size, datagram count) classes",
            vec!["target-format images follow the statement: microseconds in Jaeger, low 64 bits of the trace id + last value per key + no events in Datadog", "loopback UDP loss is ruled out by the socket's drop counter in /proc/net/udp (a drop is a machinery failure, exit 2)", "environment failures (socket errors, HTTP failures) are not in the alphabet"],
        )
    } else {
        run_c20(tier == "thorough", &mut out);
        (
            "all batches of n <= 5 (6) spans over 5 size classes (tiny, 1/3 packet, just over 1/2, just under the limit, oversize), boundary walks of a single span, of pairs and of batches of 14..140 equal spans (one of them grown byte by byte) across the 8000-byte limit, batches of 9..1000 small spans with oversize spans at the front, middle and end; which spans fit alone is decided differentially; distinct_nontrivial counts distinct (datagram count, skipped count) classes",
            vec!["loopback UDP loss is ruled out by the socket's drop counter in /proc/net/udp"],
        )
    };
    let mut code = 0;
    for v in &out.violations {
        let dir = format!("{root}/replays");
        let _ = std::fs::create_dir_all(&dir);
        let path = format!("{dir}/{prop}-{}.json", v["key"].as_str().unwrap().replace([':', '/'], "-"));
        std::fs::write(&path, serde_json::to_string_pretty(&serde_json::json!({"engine": "report", "property": prop, "violation": v})).unwrap()).unwrap();
        println!("VIOLATION property={prop} replay={path}");
        println!("  {} {}: {}", v["reporter"], v["kind"], v["detail"].as_str().unwrap_or("").lines().take(3).collect::<Vec<_>>().join(" | "));
        code = 1;
    }
    for m in &out.machinery {
        eprintln!("MACHINERY: {m}");
    }
    let ev = serde_json::json!({
        "property_id": prop,
        "tier": tier,
        "seed": std::env::var("VERIF_SEED").ok().and_then(|s| s.parse::<i64>().ok()).unwrap_or(0),
        "level": "exploration",
        "coverage": {
            "evaluations": out.evaluations,
            "distinct_nontrivial": out.classes.len(),
            "rule": rule,
            "samples": out.samples,
            "exhaustive": out.machinery.is_empty(),
            "violation_list": out.violations.iter().map(|v| serde_json::json!({"key": v["key"], "detail": v["detail"]})).collect::<Vec<_>>(),
            "machinery_errors": out.machinery,
        },
        "assumptions": assumptions,
        "wall_s": t0.elapsed().as_secs_f64(),
        "violations": out.violations.len(),
    });
    let dir = format!("{root}/evidence");
    let _ = std::fs::create_dir_all(&dir);
    std::fs::write(format!("{dir}/{prop}.json"), serde_json::to_string_pretty(&ev).unwrap()).unwrap();
    println!("{prop} {tier}: {} batches reported, {} classes, {} violations, {:.1}s", out.evaluations, out.classes.len(), out.violations.len(), t0.elapsed().as_secs_f64());
    let _ = out.property;
    if code == 0 && !out.machinery.is_empty() {
        code = 2;
    }
    std::process::exit(code);
}
