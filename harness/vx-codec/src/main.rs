//! C12: traceparent and id text codecs. Bounded-exhaustive input enumeration against an
//! independent reference parser.

use std::collections::BTreeSet;
use std::panic::catch_unwind;
use std::str::FromStr;

use fastrace::prelude::*;

fn lattice(bits: u32) -> Vec<u128> {
    let mut s: BTreeSet<u128> = BTreeSet::new();
    let max: u128 = if bits == 128 { u128::MAX } else { (1u128 << bits) - 1 };
    s.insert(0);
    s.insert(1);
    s.insert(max);
    for k in 0..bits {
        s.insert(1u128 << k);
        s.insert((1u128 << k) - 1);
        s.insert(max ^ (1u128 << k));
    }
    for pos in 0..bits / 4 {
        for v in 0..16u128 {
            s.insert(v << (pos * 4));
            s.insert(max ^ (v << (pos * 4)));
        }
    }
    // a few mixed patterns
    for p in [0x0af7651916cd43dd8448eb211c80319cu128, 0x0123456789abcdef0123456789abcdef, 0xfedcba9876543210fedcba9876543210] {
        s.insert(p & max);
    }
    s.into_iter().collect()
}

#[derive(Debug, PartialEq)]
enum Ref {
    /// the statement requires None
    MustBeNone,
    /// the statement requires exactly this value
    MustBe(u128, u64, bool),
    /// not fixed by the statement; if Some, it must be this value
    IfSome(u128, u64, bool),
    /// not fixed by the statement at all
    Free,
}

fn hex_val(s: &str) -> Option<u128> {
    // strict: non-empty, hex digits only; returns None on overflow of u128
    if s.is_empty() || !s.bytes().all(|b| b.is_ascii_hexdigit()) {
        return None;
    }
    let t = s.trim_start_matches('0');
    if t.len() > 32 {
        return None;
    }
    let mut v = 0u128;
    for b in t.bytes() {
        v = (v << 4) | (b as char).to_digit(16).unwrap() as u128;
    }
    Some(v)
}

/// Independent reference for `decode_w3c_traceparent`.
fn reference(text: &str) -> Ref {
    let parts: Vec<&str> = text.split('-').collect();
    if parts.len() != 4 {
        return Ref::MustBeNone;
    }
    if parts[0] != "00" {
        return Ref::MustBeNone;
    }
    let mut vals = [0u128; 3];
    let widths = [128u32, 64, 8];
    let mut strict = true;
    for i in 0..3 {
        let f = parts[i + 1];
        // a leading '+' is accepted by Rust's from_str_radix; the statement does not fix it
        let (body, plus) = match f.strip_prefix('+') {
            Some(b) => (b, true),
            None => (f, false),
        };
        match hex_val(body) {
            None => {
                // empty, non-hex character, or more than 128 significant bits
                if plus && body.is_empty() {
                    return Ref::MustBeNone;
                }
                return Ref::MustBeNone;
            }
            Some(v) => {
                if widths[i] < 128 && v >> widths[i] != 0 {
                    return Ref::MustBeNone;
                }
                vals[i] = v;
                let exact = [32usize, 16, 2][i];
                if plus || f.len() != exact {
                    strict = false;
                }
            }
        }
    }
    let r = (vals[0], vals[1] as u64, vals[2] & 1 == 1);
    if strict {
        Ref::MustBe(r.0, r.1, r.2)
    } else {
        Ref::IfSome(r.0, r.1, r.2)
    }
}

struct Out {
    evaluations: u64,
    nontrivial: BTreeSet<String>,
    violations: Vec<serde_json::Value>,
    samples: Vec<String>,
}

impl Out {
    fn violation(&mut self, kind: &str, input: String, detail: String) {
        if self.violations.len() < 8 && !self.violations.iter().any(|v| v["kind"] == kind) {
            self.violations.push(serde_json::json!({"engine": "codec", "kind": kind, "input": input, "detail": detail}));
        }
    }
}

fn check_decode(out: &mut Out, text: &str) {
    out.evaluations += 1;
    let r = catch_unwind(|| SpanContext::decode_w3c_traceparent(text));
    let got = match r {
        Err(_) => {
            out.violation("decode-panic", text.to_string(), "decode_w3c_traceparent panicked".into());
            return;
        }
        Ok(g) => g.map(|c| (c.trace_id.0, c.span_id.0, c.sampled)),
    };
    let want = reference(text);
    let class = match (&want, &got) {
        (Ref::MustBeNone, None) => "rejects",
        (Ref::MustBe(..), Some(_)) => "accepts-strict",
        (Ref::IfSome(..), Some(_)) => "accepts-lenient",
        (Ref::IfSome(..), None) => "rejects-lenient",
        _ => "x",
    };
    out.nontrivial.insert(format!("{class}:{}", text.split('-').count().min(6)));
    match (want, got) {
        (Ref::MustBeNone, Some(g)) => out.violation("decode-accepts-malformed", text.to_string(), format!("returned {g:x?}, must be None")),
        (Ref::MustBe(t, s, f), None) => out.violation("decode-rejects-wellformed", text.to_string(), format!("returned None, must be ({t:x},{s:x},{f})")),
        (Ref::MustBe(t, s, f), Some(g)) | (Ref::IfSome(t, s, f), Some(g)) => {
            if g != (t, s, f) {
                out.violation("decode-wrong-value", text.to_string(), format!("returned {g:x?}, fields say ({t:x},{s:x},{f})"));
            }
        }
        _ => {}
    }
}

fn check_ctx(out: &mut Out, t: u128, s: u64, sampled: bool) {
    out.evaluations += 1;
    let ctx = SpanContext::new(TraceId(t), SpanId(s)).sampled(sampled);
    let enc = ctx.encode_w3c_traceparent();
    let expect = format!("00-{t:032x}-{s:016x}-{:02x}", sampled as u8);
    // the form is checked without format!: length and character classes
    let b = enc.as_bytes();
    let shape_ok = b.len() == 55
        && &enc[0..3] == "00-"
        && b[35] == b'-'
        && b[52] == b'-'
        && b[3..35].iter().all(|c| c.is_ascii_digit() || (b'a'..=b'f').contains(c))
        && b[36..52].iter().all(|c| c.is_ascii_digit() || (b'a'..=b'f').contains(c))
        && b[53..55].iter().all(|c| c.is_ascii_hexdigit());
    if !shape_ok || enc != expect {
        out.violation("encode-form", format!("({t:x},{s:x},{sampled})"), format!("encoded as {enc:?}, expected {expect:?}"));
    }
    match SpanContext::decode_w3c_traceparent(&enc) {
        Some(d) if d.trace_id.0 == t && d.span_id.0 == s && d.sampled == sampled => {}
        other => out.violation("round-trip", format!("({t:x},{s:x},{sampled})"), format!("{enc} decodes to {:?}", other.map(|c| (c.trace_id.0, c.span_id.0, c.sampled)))),
    }
    #[allow(deprecated)]
    {
        let e2 = ctx.encode_w3c_traceparent_with_sampled(!sampled);
        if SpanContext::decode_w3c_traceparent(&e2).map(|c| c.sampled) != Some(!sampled) {
            out.violation("round-trip-with-sampled", format!("({t:x},{s:x},{sampled})"), e2);
        }
    }
}

fn check_ids(out: &mut Out, l128: &[u128], l64: &[u128]) {
    for &t in l128 {
        out.evaluations += 1;
        let id = TraceId(t);
        let d = id.to_string();
        if d != format!("{t:032x}") || d.len() != 32 {
            out.violation("traceid-display", format!("{t:x}"), d.clone());
        }
        if TraceId::from_str(&d).ok() != Some(id) {
            out.violation("traceid-fromstr", d.clone(), "Display/FromStr round trip".into());
        }
        let j = serde_json::to_string(&id).unwrap();
        if j != format!("\"{t:032x}\"") {
            out.violation("traceid-serde-form", format!("{t:x}"), j.clone());
        }
        if serde_json::from_str::<TraceId>(&j).ok() != Some(id) {
            out.violation("traceid-serde", j.clone(), "serde round trip".into());
        }
        // deserializers that cannot lend the input: from an owned value, from a reader, and from
        // text whose string needs unescaping
        let esc = format!("\"\\u003{}{}", &d[0..1], &j[2..]);
        if d.as_bytes()[0].is_ascii_digit() && serde_json::from_str::<TraceId>(&esc).ok() != Some(id) {
            out.violation("traceid-serde-escaped", esc, "serde round trip through an escaped JSON string".into());
        }
        if serde_json::from_value::<TraceId>(serde_json::Value::String(d.clone())).ok() != Some(id) {
            out.violation("traceid-serde-owned", j.clone(), "serde round trip through serde_json::Value".into());
        }
        if serde_json::from_reader::<_, TraceId>(j.as_bytes()).ok() != Some(id) {
            out.violation("traceid-serde-reader", j, "serde round trip through a reader".into());
        }
    }
    for &s in l64 {
        out.evaluations += 1;
        let s = s as u64;
        let id = SpanId(s);
        let d = id.to_string();
        if d != format!("{s:016x}") || d.len() != 16 {
            out.violation("spanid-display", format!("{s:x}"), d.clone());
        }
        if SpanId::from_str(&d).ok() != Some(id) {
            out.violation("spanid-fromstr", d.clone(), "Display/FromStr round trip".into());
        }
        let j = serde_json::to_string(&id).unwrap();
        if j != format!("\"{s:016x}\"") {
            out.violation("spanid-serde-form", format!("{s:x}"), j.clone());
        }
        if serde_json::from_str::<SpanId>(&j).ok() != Some(id) {
            out.violation("spanid-serde", j.clone(), "serde round trip".into());
        }
        let esc = format!("\"\\u003{}{}", &d[0..1], &j[2..]);
        if d.as_bytes()[0].is_ascii_digit() && serde_json::from_str::<SpanId>(&esc).ok() != Some(id) {
            out.violation("spanid-serde-escaped", esc, "serde round trip through an escaped JSON string".into());
        }
        if serde_json::from_value::<SpanId>(serde_json::Value::String(d.clone())).ok() != Some(id) {
            out.violation("spanid-serde-owned", j.clone(), "serde round trip through serde_json::Value".into());
        }
        if serde_json::from_reader::<_, SpanId>(j.as_bytes()).ok() != Some(id) {
            out.violation("spanid-serde-reader", j, "serde round trip through a reader".into());
        }
    }
    // odd text never panics
    for t in [
        "", "g", "+1", "-1", " 1", "0x1", "é", &"f".repeat(33), &"0".repeat(40), "FFFF", "１",
        &"f".repeat(255), &"0".repeat(65_536), &"é".repeat(1000), &format!("{}1", "0".repeat(4096)), &"😀".repeat(20_000),
    ] {
        out.evaluations += 1;
        let t2 = t.to_string();
        if catch_unwind(move || (TraceId::from_str(&t2).is_ok(), SpanId::from_str(&t2).is_ok())).is_err() {
            out.violation("id-fromstr-panic", t.to_string(), "panicked".into());
        }
        let j = serde_json::to_string(t).unwrap();
        if catch_unwind(move || (serde_json::from_str::<TraceId>(&j).is_ok(), serde_json::from_str::<SpanId>(&j).is_ok())).is_err() {
            out.violation("id-serde-panic", t.to_string(), "panicked".into());
        }
    }
}

fn replay(path: &str) -> i32 {
    let v: serde_json::Value = serde_json::from_str(&std::fs::read_to_string(path).expect("replay file")).expect("json");
    let input = v["violation"]["input"].as_str().unwrap_or("").to_string();
    let kind = v["violation"]["kind"].as_str().unwrap_or("").to_string();
    let mut out = Out { evaluations: 0, nontrivial: BTreeSet::new(), violations: vec![], samples: vec![] };
    if kind.starts_with("decode") {
        check_decode(&mut out, &input);
        println!("decode_w3c_traceparent({input:?}) = {:?}; reference: {:?}", SpanContext::decode_w3c_traceparent(&input).map(|c| (c.trace_id.0, c.span_id.0, c.sampled)), reference(&input));
    } else {
        // contexts and ids: re-run the whole (cheap) sweep and look for the same kind
        run(false, &mut out);
    }
    if out.violations.iter().any(|x| x["kind"] == kind.as_str()) {
        println!("VIOLATION property=C12 replay={path}");
        1
    } else {
        println!("not reproduced");
        0
    }
}

fn run(thorough: bool, out: &mut Out) {
    let l128 = lattice(128);
    let l64 = lattice(64);
    // (1) contexts
    let stride = if thorough { 1 } else { 3 };
    for (i, &t) in l128.iter().enumerate() {
        for (j, &s) in l64.iter().enumerate() {
            if (i + j) % stride != 0 && i > 8 && j > 8 {
                continue;
            }
            for sampled in [true, false] {
                check_ctx(out, t, s as u64, sampled);
            }
        }
    }
    out.samples.push(SpanContext::new(TraceId(l128[l128.len() / 2]), SpanId(l64[l64.len() / 2] as u64)).encode_w3c_traceparent());
    // (2) ids
    check_ids(out, &l128, &l64);
    // (3) all strings up to a length over a boundary alphabet
    let alphabet = ['0', '1', 'a', 'F', 'g', '-', '+', ' ', 'é'];
    let maxlen = if thorough { 6 } else { 5 };
    let mut frontier: Vec<String> = vec![String::new()];
    check_decode(out, "");
    for _ in 0..maxlen {
        let mut next = Vec::with_capacity(frontier.len() * alphabet.len());
        for s in &frontier {
            for c in alphabet {
                let mut t = s.clone();
                t.push(c);
                check_decode(out, &t);
                next.push(t);
            }
        }
        frontier = next;
    }
    // (4) product of per-field menus
    let f32 = "f".repeat(32);
    let f33 = "f".repeat(33);
    let z33 = format!("0{}", "a".repeat(32));
    let z40 = format!("{}1", "0".repeat(39));
    let versions = ["00", "01", "0", "000", "ff", "", "0x", "+0", " 00", "00 ", "０0"];
    let traces: Vec<&str> = vec!["", "0", "1", "0af7651916cd43dd8448eb211c80319c", "0AF7651916CD43DD8448EB211C80319C", &f32, &f33, &z33, &z40, "g", "0af7651916cd43dd8448eb211c80319g", "+1", "-1", " 1", "é", "0x1f"];
    let f16 = "f".repeat(16);
    let f17 = "f".repeat(17);
    let z17 = format!("0{}", "b".repeat(16));
    let spans: Vec<&str> = vec!["", "0", "b7ad6b7169203331", "B7AD6B7169203331", &f16, &f17, &z17, "g", "+2", "-2", "1 ", "é"];
    let flags = ["", "0", "1", "00", "01", "02", "03", "ff", "fe", "100", "001", "zz", "+1", "0g", " 1"];
    let tails = ["", "-", "-00", "-extra-x"];
    for v in versions {
        for t in &traces {
            for s in &spans {
                for f in flags {
                    for tail in tails {
                        let text = format!("{v}-{t}-{s}-{f}{tail}");
                        check_decode(out, &text);
                    }
                }
            }
        }
    }
    // (5) near-valid headers: every single-position edit of well-formed 55-byte headers, including
    //     multi-byte characters placed so that the byte length stays 55
    let bases = [
        "00-0af7651916cd43dd8448eb211c80319c-b7ad6b7169203331-01".to_string(),
        format!("00-{}-{}-00", "f".repeat(32), "f".repeat(16)),
        format!("00-{}-{}-ff", "0".repeat(32), "0".repeat(16)),
    ];
    //     the substituted characters are EVERY ASCII character (0x00..=0x7f: controls, punctuation, both
    //     cases, the characters next to the digit and letter ranges) and a few multi-byte ones
    let mut subst: Vec<char> = (0u8..128).map(|b| b as char).collect();
    subst.extend(['é', '€', '😀', '\u{b0}', '\u{130}', 'ａ', '１', '\u{a0}', '\u{2028}']);
    for base in &bases {
        let bytes = base.as_bytes();
        for i in 0..=bytes.len() {
            for &c in &subst {
                // insertion
                let mut t = String::new();
                t.push_str(&base[..i]);
                t.push(c);
                t.push_str(&base[i..]);
                check_decode(out, &t);
                // replacement of as many bytes as the character is long (keeps the byte length)
                let k = c.len_utf8();
                if i + k <= bytes.len() {
                    let mut t = String::new();
                    t.push_str(&base[..i]);
                    t.push(c);
                    t.push_str(&base[i + k..]);
                    check_decode(out, &t);
                }
                // replacement of one byte (changes the byte length for multi-byte characters)
                if i < bytes.len() {
                    let mut t = String::new();
                    t.push_str(&base[..i]);
                    t.push(c);
                    t.push_str(&base[i + 1..]);
                    check_decode(out, &t);
                }
            }
            // deletion, truncation
            if i < bytes.len() {
                let mut t = String::new();
                t.push_str(&base[..i]);
                t.push_str(&base[i + 1..]);
                check_decode(out, &t);
                check_decode(out, &base[..i]);
            }
        }
    }
    // (6) long inputs: fields of 64 / 255 / 256 / 1000 / 65536 characters (zeros, f, mixed), up to
    //     300 fields, a 1 MB string, well-formed headers with long suffixes and prefixes
    for n in [64usize, 255, 256, 257, 1000, 4096, 65_536] {
        for fill in ["0", "f", "0a", "é", "-"] {
            let long = fill.repeat(n / fill.chars().count().max(1));
            for text in [
                format!("00-{long}-b7ad6b7169203331-01"),
                format!("00-0af7651916cd43dd8448eb211c80319c-{long}-01"),
                format!("00-0af7651916cd43dd8448eb211c80319c-b7ad6b7169203331-{long}"),
                format!("{long}-0af7651916cd43dd8448eb211c80319c-b7ad6b7169203331-01"),
                format!("00-0af7651916cd43dd8448eb211c80319c-b7ad6b7169203331-01{long}"),
                format!("00-0af7651916cd43dd8448eb211c80319c-b7ad6b7169203331-01-{long}"),
                format!("{long}00-0af7651916cd43dd8448eb211c80319c-b7ad6b7169203331-01"),
                format!("00-{}1-b7ad6b7169203331-01", "0".repeat(n)),
                long.clone(),
            ] {
                check_decode(out, &text);
            }
        }
    }
    for n in [5usize, 6, 16, 64, 300] {
        check_decode(out, &vec!["00"; n].join("-"));
        check_decode(out, &vec!["0af7651916cd43dd8448eb211c80319c"; n].join("-"));
    }
    check_decode(out, &"00-".repeat(350_000));
    // three fields / two fields / one field
    for text in ["00", "00-", "00--", "00---", "00----", "-", "--", "---", "----", "00-1-2", "00-1", "-1-2-3", "00-1-2-3-", "00-1-2-3-4"] {
        check_decode(out, text);
    }
    out.samples.push("00-0af7651916cd43dd8448eb211c80319c-b7ad6b7169203331-01".into());
    out.samples.push("00-+1--2-01-extra-x".into());
}

fn main() {
    let args: Vec<String> = std::env::args().collect();
    if args.get(1).map(|s| s.as_str()) == Some("replay") {
        std::process::exit(replay(&args[2]));
    }
    let tier = args.get(1).cloned().unwrap_or_else(|| "quick".into());
    let root = std::env::var("VERIF_ROOT").unwrap_or_else(|_| "/verif".into());
    let t0 = std::time::Instant::now();
    std::panic::set_hook(Box::new(|_| {}));
    let mut out = Out { evaluations: 0, nontrivial: BTreeSet::new(), violations: vec![], samples: vec![] };
    run(tier == "thorough", &mut out);
    let mut code = 0;
    for v in &out.violations {
        let dir = format!("{root}/replays");
        let _ = std::fs::create_dir_all(&dir);
        let path = format!("{dir}/C12-{}.json", v["kind"].as_str().unwrap());
        std::fs::write(&path, serde_json::to_string_pretty(&serde_json::json!({"engine": "codec", "violation": v})).unwrap()).unwrap();
        println!("VIOLATION property=C12 replay={path}");
        println!("  {}: input {} -> {}", v["kind"], v["input"], v["detail"]);
        code = 1;
    }
    let ev = serde_json::json!({
        "property_id": "C12",
        "tier": tier,
        "seed": std::env::var("VERIF_SEED").ok().and_then(|s| s.parse::<i64>().ok()).unwrap_or(0),
        "level": "exploration",
        "coverage": {
            "evaluations": out.evaluations,
            "distinct_nontrivial": out.nontrivial.len(),
            "rule": "contexts: lattice of 128-bit x 64-bit ids (0, 1, all-ones, 2^k, 2^k-1, every nibble position x value and complements) x sampled flag, encode form + decode round trip; text: every string of length <= 5 (6) over {0,1,a,F,g,-,+,space,é} and the product of per-field menus (empty, short, exact, upper-case, over-long, overflowing, non-hex, signed, non-ASCII; 1..6 fields; 11 version strings), every single-position insertion / replacement / deletion / truncation of three well-formed headers with ASCII and 2-, 3- and 4-byte characters, long inputs (fields of 64 .. 65536 characters, up to 300 fields, a 1 MB string), against an independent reference parser; ids: Display/FromStr/serde_json round trips over the lattices. distinct_nontrivial counts distinct (reference verdict, implementation verdict, field count) classes reached",
            "samples": out.samples,
            "exhaustive": true,
            "violation_list": out.violations,
        },
        "assumptions": [
            "a leading '+' in a field (accepted by Rust's from_str_radix), over-long fields with leading zeros and short fields are outside what the statement fixes: judged only for the value returned, never for acceptance",
            "serde is exercised through serde_json: from_str (borrowed), escaped strings, from_value (owned) and from_reader"
        ],
        "wall_s": t0.elapsed().as_secs_f64(),
        "violations": out.violations.len(),
    });
    let dir = format!("{root}/evidence");
    let _ = std::fs::create_dir_all(&dir);
    std::fs::write(format!("{dir}/C12.json"), serde_json::to_string_pretty(&ev).unwrap()).unwrap();
    println!("C12 {tier}: {} evaluations, {} verdict classes, {} violations, {:.1}s", out.evaluations, out.nontrivial.len(), out.violations.len(), t0.elapsed().as_secs_f64());
    std::process::exit(code);
}
