//! Check orchestration: a parent process distributes jobs to worker processes (one collector
//! configuration per process), merges their results, applies the known-findings file, writes
//! replay files and the evidence file.

use std::collections::BTreeMap;
use std::collections::HashMap;
use std::collections::HashSet;
use std::collections::VecDeque;
use std::io::BufRead;
use std::io::BufReader;
use std::io::Write;
use std::process::Child;
use std::process::ChildStdin;
use std::process::ChildStdout;
use std::process::Command;
use std::process::Stdio;
use std::sync::Arc;
use std::sync::Mutex;
use std::time::Duration;
use std::time::Instant;

use serde::Deserialize;
use serde::Serialize;

use crate::drivers::rule_of;
use crate::drivers::Job;
use crate::explore::*;
use crate::sched::CaptureReporter;
use crate::model;
use crate::oracle::Finding;
use crate::oracle::Judge;
use crate::oracle::Rule;
use crate::program::Program;

#[derive(Debug, Clone, Serialize, Deserialize)]
pub struct FindingGroup {
    pub program: Program,
    pub finding: Finding,
    pub count: u64,
    pub choices: Vec<u32>,
    pub reproduced: bool,
}

#[derive(Debug, Clone, Default, Serialize, Deserialize)]
pub struct JobResult {
    pub job_id: usize,
    pub executions: u64,
    pub transitions: u64,
    pub decisions: u64,
    pub capped: bool,
    pub aborted: Option<String>,
    pub machinery: Vec<String>,
    pub state_hashes: Vec<u64>,
    pub outcomes: HashMap<u64, u64>,
    pub findings: Vec<FindingGroup>,
    pub children: Vec<Vec<u32>>,
    pub sample: Option<String>,
    pub max_preemptions: u32,
    pub wall_ms: u64,
    /// executions in which a collector step fell between two events of one trace
    pub nontrivial: u64,
    /// the process-global collector has accumulated state leaked by earlier executions (allowed
    /// losses at thread exit, or findings): the worker process should be replaced
    #[serde(default)]
    pub recycle: bool,
}

pub fn judge_execution(program: &Program, ex: &Execution, rules: &[Rule]) -> (Vec<Finding>, Vec<String>) {
    let m = model::build(program, ex);
    let mut machinery = Vec::new();
    // a panic out of a fastrace call leaves the program's own bookkeeping behind (the span it was
    // creating does not exist, ...): what follows is a consequence of the panic, not a harness bug
    let panicked = ex.obs.iter().any(|o| matches!(o.val, crate::interp::ObsVal::Panic(_)))
        || matches!(ex.outcome, Outcome::Hang | Outcome::Deadlock);
    if !panicked {
        for e in &m.ill_formed {
            machinery.push(format!("ill-formed program {}: {e}", program.name));
        }
    }
    match &ex.outcome {
        Outcome::Diverged(d) => machinery.push(format!("schedule diverged: {d}")),
        Outcome::IllFormed(d) if !panicked => machinery.push(format!("ill-formed program {}: {d}", program.name)),
        _ => {}
    }
    let j = Judge::new(program, ex, &m);
    (j.run(rules), machinery)
}

fn outcome_signature(ex: &Execution) -> u64 {
    // what the program's user can see: which names arrived in which report call, plus the final
    // collector state delta
    let mut v: Vec<(usize, Vec<(u128, String)>)> = Vec::new();
    for (i, b) in ex.batches.iter().enumerate() {
        if b.records.is_empty() {
            continue;
        }
        let mut names: Vec<(u128, String)> = b.records.iter().map(|r| (r.trace.0, r.name.clone())).collect();
        names.sort();
        v.push((i, names));
    }
    // batch indices vary with the number of empty cycles; keep only the order
    let v: Vec<_> = v.into_iter().map(|(_, n)| n).collect();
    let delta = (
        ex.stats_final.active as i64 - ex.stats_before.active as i64,
        ex.stats_final.danglings as i64 - ex.stats_before.danglings as i64,
        ex.stats_final.receivers as i64 - ex.stats_before.receivers as i64,
    );
    let attach: Vec<(String, usize, usize)> = ex
        .batches
        .iter()
        .flat_map(|b| b.records.iter().map(|r| (r.name.clone(), r.props.len(), r.events.len())))
        .collect::<std::collections::BTreeSet<_>>()
        .into_iter()
        .collect();
    hash_of(&(v, delta, attach, format!("{:?}", ex.outcome)))
}

fn render_schedule(program: &Program, ex: &Execution) -> String {
    let mut s = String::new();
    for (a, p) in &ex.steps {
        s.push_str(&format!("{}:{} ", program.actors[*a].name, p.tag()));
    }
    s
}

/// An execution is non-trivial when a collector drain step happened while some trace had begun
/// and not yet ended (i.e. the cycle could cut through the trace).
fn is_nontrivial(ex: &Execution) -> bool {
    use crate::sched::Ev;
    let mut first_send = None;
    let mut last_send = None;
    let mut drains = Vec::new();
    for ev in &ex.log {
        match &ev.ev {
            Ev::SendCommand { .. } if ev.actor.is_some() => {
                first_send.get_or_insert(ev.seq);
                last_send = Some(ev.seq);
            }
            Ev::DrainBegin | Ev::Drained { .. } => drains.push(ev.seq),
            _ => {}
        }
    }
    match (first_send, last_send) {
        (Some(a), Some(b)) => drains.iter().any(|d| *d > a && *d < b),
        _ => false,
    }
}

pub fn run_job(job: &Job) -> JobResult {
    let t0 = Instant::now();
    init_process_mode(job.cancelable, job.no_reporter);
    let rules: Vec<Rule> = job.rules.iter().map(|s| rule_of(s)).collect();
    let mut res = JobResult { job_id: job.id, ..Default::default() };
    let mut states = HashSet::new();
    if let Some(probe) = &job.probe {
        let fs = match probe.as_str() {
            "late-reporter" => late_reporter_probe(),
            other => vec![Finding { rule: "probe".into(), what: format!("unknown probe {other}"), detail: String::new() }],
        };
        res.executions = 1;
        res.transitions = 1;
        res.nontrivial = 1;
        states.insert(hash_of(&probe));
        res.outcomes.insert(hash_of(&fs), 1);
        res.sample = Some(format!("probe {probe}"));
        for fd in fs {
            res.findings.push(FindingGroup { program: Program::new(format!("C16-{probe}")), finding: fd, count: 1, choices: vec![], reproduced: true });
        }
        // the process now has a reporter: it cannot serve further no-reporter jobs
        res.aborted = Some("probe done".into());
        res.state_hashes = states.into_iter().collect();
        return res;
    }
    if job.expand_only {
        let program = &job.programs[0];
        let ex = run_once(program, &job.prefix);
        res.executions = 1;
        res.transitions = ex.steps.len() as u64;
        res.decisions = ex.decisions.len() as u64;
        for h in &ex.state_hashes {
            states.insert(*h);
        }
        *res.outcomes.entry(outcome_signature(&ex)).or_insert(0) += 1;
        if is_nontrivial(&ex) {
            res.nontrivial += 1;
        }
        let (fs, mach) = judge_execution(program, &ex, &rules);
        res.machinery.extend(mach);
        for fd in fs {
            add_finding(&mut res, program, &rules, fd, &ex);
        }
        match &ex.outcome {
            Outcome::Hang | Outcome::Deadlock | Outcome::Diverged(_) => {
                res.aborted = Some(format!("{:?}", ex.outcome));
            }
            _ => {}
        }
        let mut cost = 0u32;
        for (i, d) in ex.decisions.iter().enumerate() {
            if i >= job.prefix.len() {
                let alt_cost = cost + if d.running_enabled { 1 } else { 0 };
                if job.bound.map_or(true, |b| alt_cost <= b) {
                    for alt in 1..d.enabled.len() as u32 {
                        let mut p = ex.choices[..i].to_vec();
                        p.push(alt);
                        res.children.push(p);
                    }
                }
            }
            if d.running_enabled && d.chosen != 0 {
                cost += 1;
            }
        }
        res.sample = Some(render_schedule(program, &ex));
        res.max_preemptions = ex.preemptions;
    } else {
        let mut sample: Option<(u32, String)> = None;
        for program in &job.programs {
            let cfg = ExploreCfg { bound: job.bound, max_execs: job.max_execs, deadline: None };
            let mut pending: Vec<(Finding, Execution)> = Vec::new();
            let mut counts: BTreeMap<Finding, u64> = BTreeMap::new();
            let mut mach: Vec<String> = Vec::new();
            let mut nontrivial = 0;
            let outcomes = &mut res.outcomes;
            let phash = hash_of(program);
            let st = explore(program, &cfg, job.prefix.clone(), &mut states, |ex| {
                *outcomes.entry(outcome_signature(ex) ^ phash).or_insert(0) += 1;
                if is_nontrivial(ex) {
                    nontrivial += 1;
                }
                if sample.is_none() || (ex.preemptions > 0 && sample.as_ref().map_or(false, |(p, _)| *p == 0)) {
                    sample = Some((ex.preemptions, format!("{} || {}", program.short(), render_schedule(program, ex))));
                }
                let (fs, m) = judge_execution(program, ex, &rules);
                for x in m {
                    if !mach.contains(&x) && mach.len() < 20 {
                        mach.push(x);
                    }
                }
                for fd in fs {
                    let key = Finding { rule: fd.rule.clone(), what: fd.what.clone(), detail: String::new() };
                    let c = counts.entry(key).or_insert(0);
                    *c += 1;
                    if *c == 1 {
                        pending.push((fd, ex.clone()));
                    }
                }
                true
            });
            res.executions += st.executions;
            res.transitions += st.transitions;
            res.decisions += st.decisions;
            res.capped |= st.capped;
            res.max_preemptions = res.max_preemptions.max(st.max_preemptions_seen);
            for x in mach {
                if !res.machinery.contains(&x) && res.machinery.len() < 20 {
                    res.machinery.push(x);
                }
            }
            res.nontrivial += nontrivial;
            if st.aborted.is_none() {
                for (fd, ex) in pending {
                    let n = counts.get(&Finding { rule: fd.rule.clone(), what: fd.what.clone(), detail: String::new() }).copied().unwrap_or(1);
                    add_finding(&mut res, program, &rules, fd, &ex);
                    if let Some(g) = res.findings.last_mut() {
                        g.count = n;
                    }
                }
            } else {
                for (fd, ex) in pending {
                    res.findings.push(FindingGroup { program: program.clone(), finding: fd, count: 1, choices: ex.choices.clone(), reproduced: false });
                }
                res.aborted = st.aborted;
                break;
            }
        }
        res.sample = sample.map(|(_, s)| s);
    }
    res.state_hashes = states.into_iter().take(200_000).collect();
    res.wall_ms = t0.elapsed().as_millis() as u64;
    // (after a hang or deadlock the stuck threads may hold the collector's locks: do not touch it)
    if !job.no_reporter && res.aborted.is_none() {
        let st = stats();
        res.recycle = st.buffered > 100_000 || st.active > 5_000 || st.danglings > 100_000 || st.receivers > 64;
    }
    res
}

/// Spans created before a reporter exists stay non-recording after one has been installed: their
/// closures never run and nothing of them is delivered (C16).
pub fn late_reporter_probe() -> Vec<Finding> {
    use fastrace::prelude::*;
    use std::cell::Cell;
    let mut out = Vec::new();
    let hits = Cell::new(0u32);
    let hit = || hits.set(hits.get() + 1);
    let s = crate::sched::sched();
    let root = Span::root("early", SpanContext::new(TraceId(0xE), SpanId(0))).with_property(|| {
        hit();
        ("k", "v")
    });
    // an unsampled root created before the reporter exists is not recording either
    let unsampled = Span::root("early.u", SpanContext::new(TraceId(0xF), SpanId(1)).sampled(false)).with_property(|| {
        hit();
        ("k", "v")
    });
    let unsampled_child = Span::enter_with_parent("early.uc", &unsampled).with_property(|| {
        hit();
        ("k", "v")
    });
    if SpanContext::from_span(&unsampled).is_some() || unsampled.elapsed().is_some() || SpanContext::from_span(&unsampled_child).is_some() {
        out.push(Finding { rule: "ctx".into(), what: "an unsampled root created before the reporter existed is recording".into(), detail: String::new() });
    }
    drop(unsampled_child);
    drop(unsampled);
    let child = Span::enter_with_parent("early.c", &root).with_properties(|| {
        hit();
        [("k", "v")]
    });
    let guard = root.set_local_parent();
    let local = LocalSpan::enter_with_local_parent("early.l").with_property(|| {
        hit();
        ("k", "v")
    });
    // now install the reporter
    let before = s.world().total_reports;
    fastrace::set_reporter(
        CaptureReporter,
        fastrace::collector::Config::default().report_interval(Duration::from_secs(1_000_000_000)),
    );
    let t0 = Instant::now();
    while s.world().total_reports == before && t0.elapsed() < Duration::from_secs(10) {
        std::thread::sleep(Duration::from_micros(200));
    }
    {
        let mut w = s.world();
        w.active = true;
        w.reports.clear();
    }
    child.add_property(|| {
        hit();
        ("k2", "v2")
    });
    root.add_properties(|| {
        hit();
        [("k3", "v3")]
    });
    LocalSpan::add_property(|| {
        hit();
        ("k4", "v4")
    });
    let late_child = Span::enter_with_parent("late.c", &root).with_property(|| {
        hit();
        ("k5", "v5")
    });
    let late_local_child = Span::enter_with_local_parent("late.lc").with_property(|| {
        hit();
        ("k6", "v6")
    });
    if root.elapsed().is_some() || child.elapsed().is_some() || late_child.elapsed().is_some() {
        out.push(Finding { rule: "elapsed".into(), what: "elapsed() is Some for a span created before the reporter existed".into(), detail: String::new() });
    }
    if SpanContext::from_span(&root).is_some() || SpanContext::from_span(&late_child).is_some() || SpanContext::current_local_parent().is_some() {
        out.push(Finding { rule: "ctx".into(), what: "context extracted from a span created before the reporter existed".into(), detail: String::new() });
    }
    drop(late_local_child);
    drop(late_child);
    drop(local);
    drop(guard);
    drop(child);
    drop(root);
    fastrace::flush();
    fastrace::flush();
    let n: usize = s.world().reports.iter().map(|b| b.records.len()).sum();
    s.world().active = false;
    if n > 0 {
        out.push(Finding { rule: "no-extra".into(), what: "records delivered for spans created before the reporter existed".into(), detail: format!("{n} records") });
    }
    if hits.get() > 0 {
        out.push(Finding { rule: "lazy".into(), what: "property closure of a span created before the reporter existed was invoked".into(), detail: format!("{} invocations", hits.get()) });
    }
    out
}

/// Re-runs the schedule and keeps the finding only if it shows up again (twice in total).
fn add_finding(res: &mut JobResult, program: &Program, rules: &[Rule], fd: Finding, ex: &Execution) {
    let mut reproduced = false;
    if matches!(ex.outcome, Outcome::Completed | Outcome::IllFormed(_)) {
        let ex2 = run_once(program, &ex.choices);
        let (fs2, _) = judge_execution(program, &ex2, rules);
        reproduced = ex2.choices == ex.choices && fs2.iter().any(|x| x.rule == fd.rule && x.what == fd.what);
    }
    res.findings.push(FindingGroup { program: program.clone(), finding: fd, count: 1, choices: ex.choices.clone(), reproduced });
}

/// Worker process main loop: one JSON job per line on stdin, one JSON result per line on stdout.
pub fn worker_main() {
    let stdin = std::io::stdin();
    let stdout = std::io::stdout();
    for line in stdin.lock().lines() {
        let Ok(line) = line else { break };
        if line.trim().is_empty() {
            continue;
        }
        let job: Job = serde_json::from_str(&line).expect("job json");
        let res = run_job(&job);
        let abort = res.aborted.is_some() || res.recycle;
        let mut out = stdout.lock();
        serde_json::to_writer(&mut out, &res).unwrap();
        out.write_all(b"\n").unwrap();
        out.flush().unwrap();
        if abort {
            // threads of the aborted execution are stuck; this process cannot be reused
            std::process::exit(0);
        }
    }
}

struct Worker {
    child: Child,
    stdin: ChildStdin,
    stdout: BufReader<ChildStdout>,
    cancelable: bool,
    no_reporter: bool,
}

fn spawn_worker(cancelable: bool, no_reporter: bool) -> Worker {
    let exe = std::env::current_exe().unwrap();
    let mut child = Command::new(exe)
        .arg("worker")
        .env("RUST_BACKTRACE", "0")
        .stdin(Stdio::piped())
        .stdout(Stdio::piped())
        .stderr(Stdio::null())
        .spawn()
        .expect("spawn worker");
    let stdin = child.stdin.take().unwrap();
    let stdout = BufReader::new(child.stdout.take().unwrap());
    Worker { child, stdin, stdout, cancelable, no_reporter }
}

impl Worker {
    fn run(&mut self, job: &Job) -> Result<JobResult, String> {
        let s = serde_json::to_string(job).unwrap();
        self.stdin.write_all(s.as_bytes()).map_err(|e| e.to_string())?;
        self.stdin.write_all(b"\n").map_err(|e| e.to_string())?;
        self.stdin.flush().map_err(|e| e.to_string())?;
        let mut line = String::new();
        let n = self.stdout.read_line(&mut line).map_err(|e| e.to_string())?;
        if n == 0 {
            return Err("worker died".into());
        }
        serde_json::from_str(&line).map_err(|e| format!("bad result: {e}"))
    }
    fn kill(mut self) {
        drop(self.stdin);
        let _ = self.child.kill();
        let _ = self.child.wait();
    }
}

#[derive(Debug, Clone, Serialize, Deserialize)]
pub struct KnownEntry {
    pub status: String,
    pub property: String,
    #[serde(default)]
    pub rule: String,
    #[serde(default)]
    pub what: String,
    /// program name, or a prefix followed by `*`
    #[serde(default)]
    pub program: String,
    /// "default", "cancelable" or "any"
    #[serde(default)]
    pub config: String,
    #[serde(default)]
    pub commit: String,
    #[serde(default)]
    pub description: String,
}

#[derive(Debug, Clone, Default, Serialize, Deserialize)]
pub struct KnownFile {
    pub entries: Vec<KnownEntry>,
}

pub fn load_known(path: &str) -> KnownFile {
    match std::fs::read_to_string(path) {
        Ok(s) => serde_json::from_str(&s).expect("known_findings.json"),
        Err(_) => KnownFile::default(),
    }
}

fn known_match(k: &KnownEntry, property: &str, fd: &Finding, program: &str, cancelable: bool) -> bool {
    if k.status != "known" || k.property != property || k.rule != fd.rule || k.what != fd.what {
        return false;
    }
    let prog_ok = if let Some(pre) = k.program.strip_suffix('*') { program.starts_with(pre) } else { k.program == program };
    let _ = cancelable;
    let cfg_ok = match k.config.as_str() {
        "default" => !cancelable,
        "cancelable" => cancelable,
        _ => true,
    };
    prog_ok && cfg_ok
}

#[derive(Debug, Clone, Serialize, Deserialize)]
pub struct Replay {
    #[serde(default)]
    pub probe: Option<String>,
    pub property: String,
    pub program: Program,
    pub cancelable: bool,
    #[serde(default)]
    pub no_reporter: bool,
    pub choices: Vec<u32>,
    pub rules: Vec<String>,
    pub finding: Finding,
}

pub struct CheckSpec {
    pub property: String,
    pub tier: String,
    pub level: String,
    pub jobs: Vec<Job>,
    /// jobs whose schedule tree is split over workers
    pub split: HashSet<usize>,
    pub rule_text: String,
    pub assumptions: Vec<String>,
    pub bound_text: String,
    pub exhaustive_claim: bool,
    pub wall_cap: Duration,
    /// an additional engine run as a separate binary; prints one JSON object
    pub external: Option<(String, Vec<String>)>,
}

struct JobMeta {
    cancelable: bool,
    no_reporter: bool,
    rules: Vec<String>,
}

fn job_name(job: &Job) -> String {
    match job.programs.len() {
        1 => job.programs[0].name.clone(),
        n => format!("{}..(+{})", job.programs[0].name, n - 1),
    }
}

#[derive(Default)]
struct Agg {
    executions: u64,
    transitions: u64,
    decisions: u64,
    capped: bool,
    states: HashSet<u64>,
    outcomes: HashMap<u64, u64>,
    nontrivial: u64,
    machinery: Vec<String>,
    samples: Vec<serde_json::Value>,
    findings: Vec<(JobMeta, FindingGroup)>,
    max_preemptions: u32,
    programs: HashSet<u64>,
    jobs_done: u64,
    transient_stalls: u64,
}

pub fn verif_root() -> String {
    std::env::var("VERIF_ROOT").unwrap_or_else(|_| "/verif".into())
}

/// Runs all jobs on a pool of worker processes. Returns the process exit code.
pub fn run_check(spec: CheckSpec) -> i32 {
    let t0 = Instant::now();
    let nworkers: usize = std::env::var("VERIF_WORKERS").ok().and_then(|s| s.parse().ok()).unwrap_or(16);
    let mut spec = spec;
    let first_free_id = spec.jobs.iter().map(|j| j.id).max().unwrap_or(0) + 1;
    let queue: Arc<Mutex<VecDeque<Job>>> = Arc::new(Mutex::new(VecDeque::from(std::mem::take(&mut spec.jobs))));
    let agg: Arc<Mutex<Agg>> = Arc::new(Mutex::new(Agg::default()));
    let next_id = Arc::new(Mutex::new(first_free_id));
    let inflight = Arc::new(Mutex::new(0usize));
    let split = Arc::new(spec.split.clone());
    let deadline = t0 + spec.wall_cap;
    let mut threads = Vec::new();
    for _ in 0..nworkers {
        let queue = queue.clone();
        let agg = agg.clone();
        let next_id = next_id.clone();
        let inflight = inflight.clone();
        let split = split.clone();
        threads.push(std::thread::spawn(move || {
            let mut worker: Option<Worker> = None;
            loop {
                let job = {
                    let mut q = queue.lock().unwrap();
                    // prefer a job of the configuration this worker already has
                    let pos = match &worker {
                        Some(w) => q.iter().position(|j| j.cancelable == w.cancelable && j.no_reporter == w.no_reporter).or(if q.is_empty() { None } else { Some(0) }),
                        None => {
                            if q.is_empty() {
                                None
                            } else {
                                Some(0)
                            }
                        }
                    };
                    match pos {
                        Some(p) => {
                            *inflight.lock().unwrap() += 1;
                            q.remove(p)
                        }
                        None => None,
                    }
                };
                let Some(mut job) = job else {
                    if *inflight.lock().unwrap() == 0 {
                        break;
                    }
                    std::thread::sleep(Duration::from_millis(2));
                    continue;
                };
                if Instant::now() > deadline {
                    agg.lock().unwrap().capped = true;
                    *inflight.lock().unwrap() -= 1;
                    continue;
                }
                if worker.as_ref().map_or(true, |w| w.cancelable != job.cancelable || w.no_reporter != job.no_reporter) {
                    if let Some(w) = worker.take() {
                        w.kill();
                    }
                    worker = Some(spawn_worker(job.cancelable, job.no_reporter));
                }
                let want_split = split.contains(&job.id) && !job.expand_only && job.prefix.is_empty();
                if want_split {
                    job.expand_only = true;
                }
                let r = worker.as_mut().unwrap().run(&job);
                match r {
                    Err(e) => {
                        agg.lock().unwrap().machinery.push(format!("job {} ({}): {e}", job.id, job_name(&job)));
                        if let Some(w) = worker.take() {
                            w.kill();
                        }
                    }
                    Ok(mut res) => {
                        if res.aborted.is_some() || res.recycle {
                            if let Some(w) = worker.take() {
                                w.kill();
                            }
                        }
                        // A hang or deadlock cannot be re-run inside the process that observed it
                        // (its threads are stuck). Re-run exactly that schedule in a fresh worker
                        // process: only a hang that shows up again is a finding; a stall that does
                        // not (an overloaded machine) is not, and the interrupted job is run again.
                        if res.findings.iter().any(|g| g.finding.rule == "liveness") {
                            let mut confirmed = Vec::new();
                            let mut transient = false;
                            for g in res.findings.drain(..) {
                                if g.finding.rule != "liveness" {
                                    confirmed.push(g);
                                    continue;
                                }
                                let mut vj = job.clone();
                                vj.programs = vec![g.program.clone()];
                                vj.prefix = g.choices.clone();
                                vj.expand_only = true;
                                let mut vw = spawn_worker(job.cancelable, job.no_reporter);
                                let again = vw.run(&vj).ok().map_or(false, |r| r.findings.iter().any(|x| x.finding.rule == "liveness" && x.finding.what == g.finding.what));
                                vw.kill();
                                if again {
                                    let mut g = g;
                                    g.reproduced = true;
                                    confirmed.push(g);
                                } else {
                                    transient = true;
                                }
                            }
                            res.findings = confirmed;
                            if transient && !res.findings.iter().any(|g| g.finding.rule == "liveness") {
                                // not a property of the code: forget the stall, redo the job once
                                res.aborted = Some("probe done".into());
                                let mut a = agg.lock().unwrap();
                                a.transient_stalls += 1;
                                if a.transient_stalls <= 20 {
                                    queue.lock().unwrap().push_back(job.clone());
                                } else {
                                    a.machinery.push("too many transient stalls (overloaded machine?)".into());
                                }
                            }
                        }
                        let mut a = agg.lock().unwrap();
                        a.executions += res.executions;
                        a.transitions += res.transitions;
                        a.decisions += res.decisions;
                        a.capped |= res.capped;
                        a.nontrivial += res.nontrivial;
                        a.max_preemptions = a.max_preemptions.max(res.max_preemptions);
                        a.jobs_done += 1;
                        for p in &job.programs {
                            a.programs.insert(hash_of(&(p, job.cancelable)));
                        }
                        for h in &res.state_hashes {
                            a.states.insert(*h ^ (job.cancelable as u64));
                        }
                        for (k, v) in &res.outcomes {
                            *a.outcomes.entry(*k ^ (job.cancelable as u64)).or_insert(0) += v;
                        }
                        for m in &res.machinery {
                            if a.machinery.len() < 50 && !a.machinery.contains(m) {
                                a.machinery.push(m.clone());
                            }
                        }
                        if let Some(ab) = &res.aborted {
                            // a hang or deadlock is judged through the liveness rule; anything
                            // else that aborts an exploration is a machinery failure
                            let judged = res.findings.iter().any(|g| g.finding.rule == "liveness") || ab == "probe done";
                            if !judged {
                                a.machinery.push(format!("job {} ({}): exploration aborted: {ab}", job.id, job_name(&job)));
                            }
                        }
                        if a.samples.len() < 6 {
                            if let Some(s) = &res.sample {
                                a.samples.push(serde_json::json!({
                                    "program": job_name(&job),
                                    "config": if job.no_reporter { "no-reporter" } else if job.cancelable { "cancelable" } else { "default" },
                                    "schedule": s,
                                }));
                            }
                        }
                        for g in res.findings {
                            a.findings.push((JobMeta { cancelable: job.cancelable, no_reporter: job.no_reporter, rules: job.rules.clone() }, g));
                        }
                        drop(a);
                        if job.expand_only && want_split {
                            let mut q = queue.lock().unwrap();
                            let mut id = next_id.lock().unwrap();
                            for c in res.children {
                                let mut j = job.clone();
                                j.id = *id;
                                *id += 1;
                                j.prefix = c;
                                j.expand_only = false;
                                q.push_back(j);
                            }
                        }
                    }
                }
                *inflight.lock().unwrap() -= 1;
            }
            if let Some(w) = worker.take() {
                w.kill();
            }
        }));
    }
    for t in threads {
        let _ = t.join();
    }
    let agg = Arc::try_unwrap(agg).ok().unwrap().into_inner().unwrap();
    finish_check(&spec, agg, t0)
}

fn finish_check(spec: &CheckSpec, agg: Agg, t0: Instant) -> i32 {
    let root = verif_root();
    let known = load_known(&format!("{root}/known_findings.json"));
    let mut violations = 0;
    let mut known_hits: BTreeMap<String, u64> = BTreeMap::new();
    let mut printed: HashSet<String> = HashSet::new();
    let mut machinery = agg.machinery.clone();
    let mut violation_list = Vec::new();
    let mut timing_notes: Vec<String> = Vec::new();
    // one report per (rule, what, program family, configuration); a family is a named scenario or
    // a generator configuration
    let family = |name: &str| name.split('#').next().unwrap_or(name).to_string();
    let mut groups: BTreeMap<String, (u64, u64, usize)> = BTreeMap::new();
    for (i, (job, g)) in agg.findings.iter().enumerate() {
        let cfg = if job.no_reporter { "no-reporter" } else if job.cancelable { "cancelable" } else { "default" };
        let key = format!("{}|{}|{}|{}", g.finding.rule, g.finding.what, family(&g.program.name), cfg);
        let e = groups.entry(key).or_insert((0, 0, i));
        e.0 += 1;
        e.1 += g.count;
        // prefer a reproduced example with the shortest program
        let (_, cur) = &agg.findings[e.2];
        if (g.reproduced && !cur.reproduced) || (g.reproduced == cur.reproduced && g.program.short().len() < cur.program.short().len()) {
            e.2 = i;
        }
    }
    for (key, (nprog, nexec, i)) in &groups {
        let (job, g) = &agg.findings[*i];
        let cfg = if job.no_reporter { "no-reporter" } else if job.cancelable { "cancelable" } else { "default" };
        let fam = family(&g.program.name);
        if let Some(k) = known.entries.iter().find(|k| known_match(k, &spec.property, &g.finding, &fam, job.cancelable)) {
            *known_hits
                .entry(format!(
                    "KNOWN-FINDING: property={} {} [rule {}, programs {}, {} configuration] ({})",
                    spec.property, g.finding.what, g.finding.rule, k.program, k.config, k.description
                ))
                .or_insert(0) += nexec;
            continue;
        }
        if !g.reproduced {
            // The wall-clock rules compare the library's clock readings with the harness's own: when the
            // operating system suspends a thread between two clock reads (a loaded machine), one
            // execution can show a deviation that no re-execution shows. Such an observation is not a
            // finding (only reproduced ones are) and not a failure of the machinery either; it is
            // recorded. For every other rule a finding that does not reproduce means the harness does
            // not own some source of nondeterminism: that is a machinery failure.
            if g.finding.rule == "times" || g.finding.rule == "elapsed" {
                timing_notes.push(format!("wall-clock observation not reproduced on replay (discarded): {key}: {}", g.finding.detail));
            } else {
                machinery.push(format!("finding did not reproduce on replay: {key}: {}", g.finding.detail));
            }
            continue;
        }
        if !printed.insert(key.clone()) {
            continue;
        }
        violations += 1;
        let rp = Replay {
            probe: if g.program.actors.is_empty() { g.program.name.strip_prefix("C16-").map(String::from) } else { None },
            property: spec.property.clone(),
            program: g.program.clone(),
            cancelable: job.cancelable,
            no_reporter: job.no_reporter,
            choices: g.choices.clone(),
            rules: job.rules.clone(),
            finding: g.finding.clone(),
        };
        let dir = format!("{root}/replays");
        let _ = std::fs::create_dir_all(&dir);
        let path = format!("{dir}/{}-{:016x}.json", spec.property, hash_of(&key));
        std::fs::write(&path, serde_json::to_string_pretty(&rp).unwrap()).unwrap();
        println!("VIOLATION property={} replay={}", spec.property, path);
        println!("  {} / {} [{} , {}; {} programs, {} executions]: {}", g.finding.rule, g.finding.what, fam, cfg, nprog, nexec, g.finding.detail);
        println!("  e.g. {}", g.program.short());
        violation_list.push(serde_json::json!({"rule": g.finding.rule, "what": g.finding.what, "program_family": fam, "config": cfg, "programs": nprog, "executions": nexec, "replay": path}));
    }
    let mut external_json = serde_json::Value::Null;
    let mut external_evals = 0u64;
    if let Some((cmd, args)) = &spec.external {
        match Command::new(cmd).args(args).env("RUST_BACKTRACE", "0").output() {
            Ok(o) if o.status.code() == Some(1) && args.first().map(|a| a.as_str()) == Some("freerun") => {
                // the free-running observation failed
                violations += 1;
                let dir = format!("{root}/replays");
                let _ = std::fs::create_dir_all(&dir);
                let path = format!("{dir}/{}-freerun.json", spec.property);
                let text = String::from_utf8_lossy(&o.stdout).to_string();
                std::fs::write(&path, serde_json::to_string_pretty(&serde_json::json!({"freerun": true, "args": args, "observed": text})).unwrap()).unwrap();
                println!("VIOLATION property={} replay={}", spec.property, path);
                println!("  background collector: spans finished without flush() were not delivered in time (also: finished while a cycle was running), or spans were lost while the reporter was replaced: {text}");
                external_json = serde_json::from_str(&text).unwrap_or(serde_json::Value::Null);
            }
            Ok(o) if o.status.success() => match serde_json::from_slice::<serde_json::Value>(&o.stdout) {
                Ok(v) => {
                    external_evals = v["sequences"].as_u64().unwrap_or(0);
                    for viol in v["violations"].as_array().cloned().unwrap_or_default() {
                        violations += 1;
                        let dir = format!("{root}/replays");
                        let _ = std::fs::create_dir_all(&dir);
                        let path = format!("{dir}/{}-external-{:016x}.json", spec.property, hash_of(&viol.to_string()));
                        std::fs::write(&path, serde_json::to_string_pretty(&serde_json::json!({"external": cmd, "args": args, "violation": viol})).unwrap()).unwrap();
                        println!("VIOLATION property={} replay={}", spec.property, path);
                        println!("  disabled build: {} after [{}]", viol["what"], viol["sequence"]);
                        violation_list.push(viol);
                    }
                    external_json = v;
                }
                Err(e) => machinery.push(format!("external engine {cmd}: bad output: {e}")),
            },
            Ok(o) => machinery.push(format!("external engine {cmd} failed: {:?}: {}", o.status, String::from_utf8_lossy(&o.stderr).chars().take(400).collect::<String>())),
            Err(e) => machinery.push(format!("external engine {cmd}: {e}")),
        }
    }
    for (k, n) in &known_hits {
        println!("{k} [{n} executions]");
    }
    for m in &machinery {
        eprintln!("MACHINERY: {m}");
    }
    for m in &timing_notes {
        eprintln!("NOTE: {m}");
    }
    let wall = t0.elapsed().as_secs_f64();
    let exhaustive = spec.exhaustive_claim && !agg.capped && machinery.is_empty();
    let ev = serde_json::json!({
        "property_id": spec.property,
        "tier": spec.tier,
        "seed": std::env::var("VERIF_SEED").ok().and_then(|s| s.parse::<i64>().ok()).unwrap_or(0),
        "level": spec.level,
        "coverage": {
            "states": agg.states.len(),
            "transitions": agg.transitions,
            "traces_validated_against_impl": agg.executions,
            "evaluations": agg.executions + external_evals,
            "external_engine": external_json,
            "distinct_nontrivial": agg.nontrivial,
            "rule": spec.rule_text,
            "samples": agg.samples,
            "programs": agg.programs.len(),
            "jobs": agg.jobs_done,
            "decisions": agg.decisions,
            "distinct_observable_outcomes": agg.outcomes.len(),
            "bound": spec.bound_text,
            "max_preemptions_in_an_execution": agg.max_preemptions,
            "capped": agg.capped,
            "exhaustive": exhaustive,
            "known_findings_seen": known_hits.keys().collect::<Vec<_>>(),
            "violation_list": violation_list,
            "machinery_errors": machinery,
            "wall_clock_observations_discarded": timing_notes,
            "transient_stalls_retried": agg.transient_stalls,
            "explanation": "every explored schedule is an execution of the real fastrace code under the controlled scheduler; states are distinct abstract states (actor positions, pending steps, queue pushes/pops, flags, collector phase, delivered counts) seen at decision points",
        },
        "assumptions": spec.assumptions,
        "wall_s": wall,
        "violations": violations,
    });
    let dir = format!("{root}/evidence");
    let _ = std::fs::create_dir_all(&dir);
    std::fs::write(format!("{dir}/{}.json", spec.property), serde_json::to_string_pretty(&ev).unwrap()).unwrap();
    println!(
        "{} {}: {} programs, {} executions, {} transitions, {} states, {} outcomes, {} violations, {} known, {:.1}s{}",
        spec.property,
        spec.tier,
        agg.programs.len(),
        agg.executions,
        agg.transitions,
        agg.states.len(),
        agg.outcomes.len(),
        violations,
        known_hits.len(),
        wall,
        if agg.capped { " (CAPPED)" } else { "" }
    );
    if violations > 0 {
        1
    } else if !machinery.is_empty() {
        2
    } else {
        0
    }
}

/// Re-executes a replay file twice; exit code 1 when the finding shows up both times.
pub fn replay_main(path: &str) -> i32 {
    let rp: Replay = serde_json::from_str(&std::fs::read_to_string(path).expect("replay file")).expect("replay json");
    if let Some(probe) = &rp.probe {
        init_process_mode(rp.cancelable, rp.no_reporter);
        let fs = match probe.as_str() {
            "late-reporter" => late_reporter_probe(),
            _ => vec![],
        };
        for fd in &fs {
            println!("  finding: {} / {}: {}", fd.rule, fd.what, fd.detail);
        }
        return if fs.iter().any(|x| x.rule == rp.finding.rule && x.what == rp.finding.what) {
            println!("VIOLATION property={} replay={}", rp.property, path);
            1
        } else {
            println!("not reproduced");
            0
        };
    }
    init_process_mode(rp.cancelable, rp.no_reporter);
    let rules: Vec<Rule> = rp.rules.iter().map(|s| rule_of(s)).collect();
    let mut hits = 0;
    for round in 0..2 {
        let ex = run_once(&rp.program, &rp.choices);
        if ex.choices != rp.choices {
            eprintln!("MACHINERY: replay diverged: asked {:?}, got {:?}", rp.choices, ex.choices);
            return 2;
        }
        let (fs, mach) = judge_execution(&rp.program, &ex, &rules);
        for m in mach {
            eprintln!("MACHINERY: {m}");
        }
        if round == 0 {
            println!("program: {}", rp.program.short());
            println!("config: {}", if rp.cancelable { "cancelable" } else { "default" });
            print!("schedule:");
            for (a, p) in &ex.steps {
                print!(" {}:{}", rp.program.actors[*a].name, p.tag());
            }
            println!();
            for (i, b) in ex.batches.iter().enumerate() {
                println!("  report #{i} ({}): {:?}", b.phase, b.records.iter().map(|r| format!("{}{:?}{:?}", r.name, r.props, r.events.iter().map(|e| &e.0).collect::<Vec<_>>())).collect::<Vec<_>>());
            }
            println!("  collector state before {:?} after {:?}", ex.stats_before, ex.stats_final);
            for fd in &fs {
                println!("  finding: {} / {}: {}", fd.rule, fd.what, fd.detail);
            }
        }
        if fs.iter().any(|x| x.rule == rp.finding.rule && x.what == rp.finding.what) {
            hits += 1;
        }
    }
    if hits == 2 {
        println!("VIOLATION property={} replay={}", rp.property, path);
        1
    } else if hits == 0 {
        println!("not reproduced");
        0
    } else {
        eprintln!("MACHINERY: finding reproduced only once in two runs");
        2
    }
}
