//! Oracles: compare what an execution made observable with what the reference model defines.

use std::collections::BTreeMap;
use std::collections::BTreeSet;
use std::collections::HashMap;

use serde::Deserialize;
use serde::Serialize;

use crate::explore::Execution;
use crate::explore::Outcome;
use crate::interp::ObsVal;
use crate::interp::Rec;
use crate::model::*;
use crate::program::*;
use crate::sched::Ev;
use crate::sched::Pending;

#[derive(Debug, Clone, PartialEq, Eq, Hash, Serialize, Deserialize, PartialOrd, Ord)]
pub struct Finding {
    pub rule: String,
    /// stable description of *what* fails, without ids, sequence numbers or counts that vary
    pub what: String,
    pub detail: String,
}

fn f(rule: &str, what: impl Into<String>, detail: impl Into<String>) -> Finding {
    Finding { rule: rule.into(), what: what.into(), detail: detail.into() }
}

#[derive(Debug, Clone, Copy, PartialEq, Eq, Hash, PartialOrd, Ord)]
pub enum Rule {
    /// no deadlock / hang
    Liveness,
    /// no panic out of any call
    NoPanic,
    /// default config: every defined record delivered exactly once, by the final flush at the latest
    Deliver,
    /// default config: a record whose submission completed before a cycle began is out by its end
    Prompt,
    /// every delivered record is one the program defines (trace, name, parent)
    NoExtra,
    /// trace id / parent id / id distinctness of delivered records
    Tree,
    /// cancelable: one batch per trace, not before the root finishes, complete w.r.t. happens-before
    Hold,
    /// cancelable: cancelled traces never surface
    Cancel,
    /// attachments (properties, events) on the right record, exactly once
    Attach,
    /// attachments of one route and thread keep their issue order
    AttachOrder,
    /// collector state returns to baseline
    State,
    /// extracted contexts
    Ctx,
    /// closures of non-recording things are not run
    Lazy,
    /// elapsed() is Some/None as defined
    Elapsed,
    /// recorded times
    Times,
    /// to_span_records / N identical copies
    Sets,
    /// poll results of adapters
    Polls,
}

pub struct Matched<'a> {
    pub batch: usize,
    pub rec: &'a Rec,
    pub erec: Option<usize>,
}

pub struct Judge<'a> {
    pub program: &'a Program,
    pub ex: &'a Execution,
    pub m: &'a Model,
    pub idmap: HashMap<String, BTreeSet<u64>>,
    pub matched: Vec<Matched<'a>>,
    /// erec index → matched observed records (indices into `matched`)
    pub by_erec: Vec<Vec<usize>>,
}

fn resolve(idmap: &HashMap<String, BTreeSet<u64>>, p: &PRef, observed: u64) -> bool {
    match p {
        PRef::Remote(v) => *v == observed,
        // a parent that was never delivered or observed cannot be checked: accept
        PRef::Span(n) => idmap.get(n).map_or(true, |s| s.contains(&observed)),
    }
}

impl<'a> Judge<'a> {
    pub fn new(program: &'a Program, ex: &'a Execution, m: &'a Model) -> Self {
        let mut idmap: HashMap<String, BTreeSet<u64>> = HashMap::new();
        for b in &ex.batches {
            for r in &b.records {
                idmap.entry(r.name.clone()).or_default().insert(r.id);
            }
        }
        for o in &ex.obs {
            if let ObsVal::Records(rs) = &o.val {
                for r in rs {
                    idmap.entry(r.name.clone()).or_default().insert(r.id);
                }
            }
        }
        // contexts name spans that may never be delivered (unsampled, cancelled)
        for e in &m.ctxs {
            if let ExpCtx::Some { span: PRef::Span(n), .. } = &e.ctx {
                if let Some(o) = find_obs(ex, e) {
                    if let ObsVal::Ctx(Some(c)) = &o.val {
                        // a name the program gives to several spans (one enter_on_poll span per
                        // poll) legitimately has several ids
                        let multi = m.erecs.iter().filter(|x| &x.name == n).count() > 1
                            && m.erecs.iter().filter(|x| &x.name == n).map(|x| (&x.trace, &x.root, x.copy)).collect::<std::collections::BTreeSet<_>>().len()
                                < m.erecs.iter().filter(|x| &x.name == n).count();
                        if !idmap.contains_key(n) || multi {
                            idmap.entry(n.clone()).or_default().insert(c.span);
                        }
                    }
                }
            }
        }
        let mut by_name: HashMap<(&U128, &str), Vec<usize>> = HashMap::new();
        for (i, e) in m.erecs.iter().enumerate() {
            by_name.entry((&e.trace, e.name.as_str())).or_default().push(i);
        }
        let mut by_erec: Vec<Vec<usize>> = vec![Vec::new(); m.erecs.len()];
        let mut matched = Vec::new();
        // Roots that carry the same trace id have descendants whose copies cannot be told apart
        // by content (same trace id, name and parent): such a copy is taken to belong to the root
        // that is delivered in the same report call, if there is one.
        let mut root_batch: HashMap<(&U128, &str), usize> = HashMap::new();
        for (bi, b) in ex.batches.iter().enumerate() {
            for r in &b.records {
                if m.erecs.iter().any(|e| e.name == e.root && e.name == r.name && e.trace == r.trace) {
                    root_batch.entry((&r.trace, r.name.as_str())).or_insert(bi);
                }
            }
        }
        for (bi, b) in ex.batches.iter().enumerate() {
            for r in &b.records {
                let mut hit = None;
                if let Some(c) = by_name.get(&(&r.trace, r.name.as_str())) {
                    // prefer a candidate that still has room (and, among those, one whose root is
                    // in this report call)
                    let mut with_room = None;
                    for &ei in c {
                        let e = &m.erecs[ei];
                        if resolve(&idmap, &e.parent, r.parent) {
                            if by_erec[ei].len() < e.count {
                                if root_batch.get(&(&e.trace, e.root.as_str())) == Some(&bi) {
                                    hit = Some(ei);
                                    break;
                                }
                                with_room.get_or_insert(ei);
                            } else if hit.is_none() {
                                hit = Some(ei);
                            }
                        }
                    }
                    if let Some(ei) = with_room {
                        if hit.map_or(true, |h| by_erec[h].len() >= m.erecs[h].count) {
                            hit = Some(ei);
                        }
                    }
                }
                if let Some(ei) = hit {
                    by_erec[ei].push(matched.len());
                }
                matched.push(Matched { batch: bi, rec: r, erec: hit });
            }
        }
        Judge { program, ex, m, idmap, matched, by_erec }
    }

    fn dropped(&self, at: OpRef) -> bool {
        self.m.dropped_in.contains_key(&at)
    }

    fn any_dropped(&self) -> bool {
        !self.m.dropped_in.is_empty()
    }

    pub fn run(&self, rules: &[Rule]) -> Vec<Finding> {
        let mut out = Vec::new();
        for r in rules {
            match r {
                Rule::Liveness => self.liveness(&mut out),
                Rule::NoPanic => self.no_panic(&mut out),
                Rule::Deliver => self.deliver(&mut out),
                Rule::Prompt => self.prompt(&mut out),
                Rule::NoExtra => self.no_extra(&mut out),
                Rule::Tree => self.tree(&mut out),
                Rule::Hold => self.hold(&mut out),
                Rule::Cancel => self.cancel(&mut out),
                Rule::Attach => self.attach(&mut out, false),
                Rule::AttachOrder => self.attach(&mut out, true),
                Rule::State => self.state(&mut out),
                Rule::Ctx => self.ctx(&mut out),
                Rule::Lazy => self.lazy(&mut out),
                Rule::Elapsed => self.elapsed(&mut out),
                Rule::Times => self.times(&mut out),
                Rule::Sets => self.sets(&mut out),
                Rule::Polls => {}
            }
        }
        out.sort();
        out.dedup();
        out
    }

    fn liveness(&self, out: &mut Vec<Finding>) {
        if self.ex.blocked_during_report {
            out.push(f(
                "liveness",
                "a tracing call waits for the collector while the reporter runs",
                "a thread's first tracing call (queue registration) could not proceed while a collector cycle was inside Reporter::report",
            ));
        }
        // A collector cycle must end however long threads keep sending: every drain pass but the
        // first and the last needs a command that was on its way (stamped, or parked) when the
        // cycle began and reached its queue while the cycle was running.
        {
            let mut passes = 0usize;
            let mut begin = 0u64;
            let mut late_old = 0usize;
            let mut last_send: HashMap<Option<usize>, u64> = HashMap::new();
            let mut parked_at_exit: HashMap<Option<usize>, usize> = HashMap::new();
            let mut cur_op: HashMap<Option<usize>, usize> = HashMap::new();
            for ev in &self.ex.log {
                match &ev.ev {
                    Ev::SendCommand { .. } => {
                        last_send.insert(ev.actor, ev.seq);
                    }
                    // commands still parked when a thread exits are pushed by its queue's
                    // destructor (no hook there)
                    Ev::Note(n) if n.starts_with("parked-at-exit") => {
                        let k = n.split(':').nth(1).and_then(|x| x.parse::<usize>().ok()).unwrap_or(0);
                        parked_at_exit.insert(ev.actor, k);
                    }
                    Ev::ActorDone if passes > 0 => {
                        late_old += parked_at_exit.get(&ev.actor).copied().unwrap_or(0);
                    }
                    Ev::OpBegin { op } => {
                        cur_op.insert(ev.actor, *op);
                    }
                    Ev::OpEnd { .. } => {
                        cur_op.remove(&ev.actor);
                    }
                    Ev::DrainBegin => {
                        if passes == 0 {
                            begin = ev.seq;
                            // a bulk fill in progress pushes without logging: one of its commands
                            // may have been stamped before the cycle began
                            late_old = cur_op
                                .iter()
                                .filter(|(a, op)| {
                                    a.and_then(|a| self.program.actors.get(a)).and_then(|act| act.ops.get(**op)).map_or(false, |o| {
                                        matches!(o, Op::Fill { .. } | Op::FillScopes { .. } | Op::FillLocalSpans { .. } | Op::Unfill)
                                    })
                                })
                                .count();
                        }
                        passes += 1;
                    }
                    Ev::RingPushed { ok: true, replay } if passes > 0 => {
                        if *replay || last_send.get(&ev.actor).map_or(true, |s| *s < begin) {
                            late_old += 1;
                        }
                    }
                    Ev::CycleEnd { .. } => {
                        if passes > 2 + late_old {
                            out.push(f(
                                "liveness",
                                "a collector cycle keeps draining commands sent after it began",
                                format!("{passes} drain passes in one cycle although only {late_old} command(s) sent before it began arrived during it: threads that keep tracing keep the cycle (and flush()) from ending"),
                            ));
                        }
                        passes = 0;
                    }
                    _ => {}
                }
            }
        }
        match &self.ex.outcome {
            Outcome::Deadlock => out.push(f("liveness", "deadlock", "no actor enabled before all finished")),
            Outcome::Hang => out.push(f(
                "liveness",
                "hang",
                if self.ex.steps.len() > crate::explore::MAX_STEPS {
                    "an actor keeps retrying the same queue step without ever finishing its call (spinning)"
                } else {
                    "an actor did not reach a scheduling point in time"
                },
            )),
            _ => {}
        }
    }

    fn no_panic(&self, out: &mut Vec<Finding>) {
        for o in &self.ex.obs {
            if let ObsVal::Panic(msg) = &o.val {
                let opname = self
                    .program
                    .actors
                    .get(o.actor)
                    .and_then(|a| a.ops.get(o.op))
                    .map(|op| op_kind(op))
                    .unwrap_or_else(|| match o.label.strip_prefix("at-exit:") {
                        Some(rest) => format!("{} called from a thread-local destructor", rest.split(':').nth(1).unwrap_or(rest)),
                        None => "release of leftover guards".into(),
                    });
                let first = msg.lines().next().unwrap_or("").to_string();
                let first = first.strip_prefix("in a thread-local destructor: ").unwrap_or(&first).to_string();
                out.push(f("no-panic", format!("panic in {opname}: {}", strip_numbers(&first)), format!("actor {} op {}: {msg}", o.actor, o.op as i64)));
            }
        }
    }

    fn cancelled(&self, root: &str) -> bool {
        self.ex.cancelable && self.m.cancelled_roots.iter().any(|r| r == root)
    }

    /// Default configuration: exactly-once delivery by the final flush.
    fn deliver(&self, out: &mut Vec<Finding>) {
        if self.ex.cancelable {
            return;
        }
        for (ei, e) in self.m.erecs.iter().enumerate() {
            let got = &self.by_erec[ei];
            let on_time: Vec<_> = got.iter().filter(|&&mi| self.ex.batches[self.matched[mi].batch].phase != "extra").collect();
            if self.dropped(e.submit) {
                // C09: may be missing, must not be duplicated
                if got.len() > e.count {
                    out.push(f("deliver", format!("duplicate {}", kind_of(e)), format!("{} delivered {} times", e.name, got.len())));
                }
                continue;
            }
            if got.len() < e.count {
                out.push(f(
                    "deliver",
                    format!("lost {}", kind_of(e)),
                    format!("{} (trace {:x}, submitted by op {:?}) delivered {} of {} times", e.name, e.trace.0, e.submit, got.len(), e.count),
                ));
            } else if got.len() > e.count {
                out.push(f("deliver", format!("duplicate {}", kind_of(e)), format!("{} delivered {} times", e.name, got.len())));
            } else if on_time.len() < e.count {
                out.push(f(
                    "deliver",
                    format!("late {}", kind_of(e)),
                    format!("{} only delivered by a cycle after the final flush() returned", e.name),
                ));
            }
        }
    }

    /// Collector cycles (and program-level flushes) as (begin seq, report seq, batch index).
    fn cycles(&self) -> Vec<(u64, u64, usize)> {
        let mut v = Vec::new();
        let mut pending: HashMap<Option<usize>, u64> = HashMap::new();
        for ev in &self.ex.log {
            match &ev.ev {
                Ev::Step { pending: Pending::CycleLock } | Ev::Step { pending: Pending::Flush } => {
                    pending.insert(ev.actor, ev.seq);
                }
                Ev::Note(n) if n == "final-flush-begin" => {
                    pending.insert(None, ev.seq);
                }
                Ev::Report { batch, .. } => {
                    // a flush reports from a helper thread (actor None)
                    if let Some(b) = pending.remove(&ev.actor) {
                        v.push((b, ev.seq, *batch));
                    } else if ev.actor.is_none() {
                        // flush issued by an actor: its begin is the latest pending flush step
                        if let Some((&k, &b)) = pending.iter().max_by_key(|(_, &b)| b) {
                            pending.remove(&k);
                            v.push((b, ev.seq, *batch));
                        }
                    }
                }
                _ => {}
            }
        }
        v
    }

    fn prompt(&self, out: &mut Vec<Finding>) {
        if self.ex.cancelable {
            return;
        }
        let cycles = self.cycles();
        for (ei, e) in self.m.erecs.iter().enumerate() {
            if self.dropped(e.submit) {
                continue;
            }
            let Some(&(_, end)) = self.m.op_seq.get(&e.submit) else { continue };
            // first cycle that began after the submitting operation had returned
            if let Some(&(_, rep_seq, _)) = cycles.iter().filter(|(b, _, _)| *b > end).min_by_key(|(b, _, _)| *b) {
                let ok = self.by_erec[ei].len() >= e.count
                    && self.by_erec[ei].iter().all(|&mi| self.ex.batches[self.matched[mi].batch].seq <= rep_seq);
                if !ok && !self.by_erec[ei].is_empty() {
                    out.push(f(
                        "prompt",
                        format!("{} not delivered by the first cycle that began after it was finished", kind_of(e)),
                        format!("{}: submitted by op {:?} (returned at {end}), first later cycle reported at {rep_seq}", e.name, e.submit),
                    ));
                }
            }
        }
    }

    fn no_extra(&self, out: &mut Vec<Finding>) {
        for mt in &self.matched {
            if mt.erec.is_none() {
                let r = mt.rec;
                let cands: Vec<&ERec> = self.m.erecs.iter().filter(|e| e.name == r.name).collect();
                if cands.is_empty() {
                    let known = self.m.spans.contains_key(&r.name);
                    out.push(f(
                        "no-extra",
                        if known { "record of a span that must not be delivered" } else { "record the program does not define" },
                        format!("{} in trace {:x} parent {:x}", r.name, r.trace.0, r.parent),
                    ));
                }
            }
        }
        // nothing is delivered before it finished (a span: its finish; a local span: the end of the
        // scope or the push that submits it)
        for (ei, e) in self.m.erecs.iter().enumerate() {
            if let Some(&(begin, _)) = self.m.op_seq.get(&e.submit) {
                for &mi in &self.by_erec[ei] {
                    let b = &self.ex.batches[self.matched[mi].batch];
                    if b.seq < begin {
                        out.push(f("no-extra", format!("{} delivered before it finished", kind_of(e)), format!("{}: report call at {} but the finishing operation {:?} began at {begin}", e.name, b.seq, e.submit)));
                    }
                }
            }
        }
        // over-delivery beyond the expected multiplicity
        for (ei, e) in self.m.erecs.iter().enumerate() {
            if self.by_erec[ei].len() > e.count {
                out.push(f("no-extra", format!("duplicate {}", kind_of(e)), format!("{} delivered {} times", e.name, self.by_erec[ei].len())));
            }
        }
    }

    fn tree(&self, out: &mut Vec<Finding>) {
        for mt in &self.matched {
            let r = mt.rec;
            if r.id == 0 {
                out.push(f("tree", "zero span id", r.name.clone()));
            }
            if mt.erec.is_none() {
                let cands: Vec<&ERec> = self.m.erecs.iter().filter(|e| e.name == r.name).collect();
                if cands.is_empty() {
                    continue;
                }
                if !cands.iter().any(|e| e.trace == r.trace) {
                    out.push(f(
                        "tree",
                        format!("wrong trace id on {}", if cands[0].local { "local span" } else if cands[0].is_root { "root" } else { "span" }),
                        format!("{}: trace {:x}, expected one of {:?}", r.name, r.trace.0, cands.iter().map(|e| format!("{:x}", e.trace.0)).collect::<Vec<_>>()),
                    ));
                } else {
                    out.push(f(
                        "tree",
                        format!("wrong parent id on {}", if cands[0].local { "local span" } else if cands[0].is_root { "root" } else { "span" }),
                        format!(
                            "{}: parent {:x}, expected {:?} (ids {:?})",
                            r.name,
                            r.parent,
                            cands.iter().filter(|e| e.trace == r.trace).map(|e| &e.parent).collect::<Vec<_>>(),
                            cands
                                .iter()
                                .filter_map(|e| match &e.parent {
                                    PRef::Span(n) => self.idmap.get(n),
                                    _ => None,
                                })
                                .collect::<Vec<_>>()
                        ),
                    ));
                }
            }
        }
        // bulk records (counted, not listed): every one of them has its own id
        {
            let mut seen: HashMap<u64, usize> = HashMap::new();
            let mut bulk = 0usize;
            for (ei, e) in self.m.erecs.iter().enumerate() {
                if e.count > 1 {
                    for &mi in &self.by_erec[ei] {
                        bulk += 1;
                        *seen.entry(self.matched[mi].rec.id).or_insert(0) += 1;
                    }
                }
            }
            if seen.len() < bulk {
                out.push(f("tree", "two spans share a span id", format!("{} bulk records carry only {} distinct ids", bulk, seen.len())));
            }
        }
        // one id per name (unless the program makes several spans of that name), distinct ids for
        // distinct names
        let mut expected_multi: HashMap<&str, usize> = HashMap::new();
        for e in &self.m.erecs {
            let c = expected_multi.entry(e.name.as_str()).or_insert(0);
            *c = (*c).max(self.m.erecs.iter().filter(|x| x.name == e.name && x.trace == e.trace && x.root == e.root && x.parent == e.parent).map(|x| x.count).sum());
        }
        let mut owner: HashMap<u64, &str> = HashMap::new();
        for (name, ids) in &self.idmap {
            let allow = expected_multi.get(name.as_str()).copied().unwrap_or(1).max(1);
            if ids.len() > allow {
                out.push(f("tree", "one span delivered under several ids", format!("{name}: {ids:x?}")));
            }
            for id in ids {
                if let Some(prev) = owner.insert(*id, name.as_str()) {
                    if prev != name {
                        // equal random thread prefixes are a 2^-32 event by design; counted elsewhere
                        out.push(f("tree", "two spans share a span id", format!("{prev} and {name}: {id:x}")));
                    }
                }
            }
        }
    }

    /// Cancelable configuration.
    fn hold(&self, out: &mut Vec<Finding>) {
        if !self.ex.cancelable {
            return;
        }
        let mut roots: BTreeSet<&str> = BTreeSet::new();
        for e in &self.m.erecs {
            roots.insert(e.root.as_str());
        }
        for root in roots {
            if self.cancelled(root) {
                continue;
            }
            let erecs: Vec<usize> = (0..self.m.erecs.len()).filter(|&i| self.m.erecs[i].root == root).collect();
            let mut batches: BTreeSet<usize> = BTreeSet::new();
            for &ei in &erecs {
                for &mi in &self.by_erec[ei] {
                    batches.insert(self.matched[mi].batch);
                }
            }
            let rf = self.m.root_finish.get(root).copied();
            let root_erec = erecs.iter().copied().find(|&ei| self.m.erecs[ei].is_root);
            let root_dropped = self.start_dropped(root) || root_erec.map_or(false, |ei| self.dropped(self.m.erecs[ei].submit));
            if let Some(rf) = rf {
                let (rf_begin, _) = self.m.op_seq.get(&rf).copied().unwrap_or((0, 0));
                for &b in &batches {
                    if self.ex.batches[b].seq < rf_begin {
                        out.push(f("hold", "records delivered before the root finished", format!("trace of {root}: batch {b}")));
                    }
                }
            } else if !batches.is_empty() {
                out.push(f("hold", "records delivered although the root never finished", format!("trace of {root}")));
            }
            if batches.len() > 1 {
                out.push(f("hold", "trace delivered in more than one report call", format!("trace of {root}: batches {batches:?}")));
            }
            let Some(rf) = rf else { continue };
            let root_batch = root_erec.and_then(|ei| self.by_erec[ei].first().map(|&mi| self.matched[mi].batch));
            match root_batch {
                None => {
                    if !root_dropped && !self.m.parked_at_exit {
                        out.push(f("hold", "root record never delivered", format!("trace of {root}")));
                    }
                    if !batches.is_empty() && !root_dropped {
                        out.push(f("hold", "records of a trace delivered without its root", format!("trace of {root}")));
                    }
                }
                Some(rb) => {
                    if self.ex.batches[rb].phase == "extra" {
                        out.push(f("hold", "late root", format!("trace of {root} only delivered after the final flush() returned")));
                    }
                    for &ei in &erecs {
                        let e = &self.m.erecs[ei];
                        if self.dropped(e.submit) {
                            continue;
                        }
                        let n = self.by_erec[ei].len();
                        if n > e.count {
                            out.push(f("hold", format!("duplicate {}", kind_of(e)), e.name.clone()));
                        }
                        if self.m.hb(e.submit, rf) && n < e.count {
                            out.push(f(
                                "hold",
                                format!("{} finished before the root is missing from the trace", kind_of(e)),
                                format!("{} (op {:?}) happens before the root's finish (op {:?})", e.name, e.submit, rf),
                            ));
                        }
                    }
                }
            }
        }
    }

    /// Did the trace's start command hit a full ring (cancelable: the trace may be missing)?
    fn start_dropped(&self, root: &str) -> bool {
        self.m.spans.get(root).map_or(false, |s| self.dropped(s.created))
    }

    fn cancel(&self, out: &mut Vec<Finding>) {
        if !self.ex.cancelable {
            return;
        }
        for root in &self.m.cancelled_roots {
            for (ei, e) in self.m.erecs.iter().enumerate() {
                if &e.root == root && !self.by_erec[ei].is_empty() {
                    out.push(f(
                        "cancel",
                        format!("{} of a cancelled trace delivered", kind_of(e)),
                        format!("{} of trace {root} in batch {:?}", e.name, self.by_erec[ei].iter().map(|&mi| self.matched[mi].batch).collect::<Vec<_>>()),
                    ));
                }
            }
        }
    }

    fn attach(&self, out: &mut Vec<Finding>, order_only: bool) {
        let mut all = Vec::new();
        {
        let out = &mut all;
        for (ei, e) in self.m.erecs.iter().enumerate() {
            if e.count != 1 {
                continue;
            }
            for &mi in &self.by_erec[ei] {
                let r = self.matched[mi].rec;
                // expected attachments: (att, must)
                let mut exp: Vec<(&Att, bool)> = e.inset.iter().map(|a| (a, true)).collect();
                let finish = e.submit;
                let root_finish = self.m.root_finish.get(&e.root).copied();
                for x in self.m.xatts.iter().filter(|x| x.root == e.root && x.trace == e.trace && x.target == e.name && x.copy == e.copy) {
                    let pre = self.m.hb(x.att.submit, finish) && root_finish.map_or(false, |rf| self.m.hb(finish, rf));
                    let must = pre && !self.dropped(x.att.submit) && !e.local;
                    exp.push((&x.att, must));
                }
                let multi = self.m.erecs.iter().filter(|x| x.name == e.name && x.root == e.root && x.trace == e.trace).count() > 1;
                let q = if multi { " on a span with several parents in one trace" } else { "" };
                let mut used_props = vec![false; r.props.len()];
                let mut used_events = vec![false; r.events.len()];
                // position of each expected attachment in the observed record
                let mut groups: BTreeMap<String, Vec<(usize, usize, u64)>> = BTreeMap::new();
                for (a, must) in &exp {
                    match &a.kind {
                        AttKind::Prop(..) => {
                            let pairs = att_pairs(a);
                            // find the pairs as a consecutive run
                            let mut found = None;
                            'outer: for start in 0..r.props.len() {
                                if start + pairs.len() > r.props.len() {
                                    break;
                                }
                                for (j, p) in pairs.iter().enumerate() {
                                    if used_props[start + j] || &r.props[start + j] != p {
                                        continue 'outer;
                                    }
                                }
                                found = Some(start);
                                break;
                            }
                            match found {
                                Some(s) => {
                                    for j in 0..pairs.len() {
                                        used_props[s + j] = true;
                                    }
                                    groups.entry(format!("p{:?}", a.route)).or_default().push((a.order, s, self.m.op_seq.get(&a.submit).map_or(0, |x| x.1)));
                                }
                                None if *must && !pairs.is_empty() => out.push(f(
                                    "attach",
                                    format!("property lost ({}){q}", route_name(&a.route)),
                                    format!("{:?} missing on {} (has {:?})", pairs, e.name, r.props),
                                )),
                                None => {}
                            }
                        }
                        AttKind::Event(name, props) => {
                            let found = (0..r.events.len()).find(|&i| !used_events[i] && &r.events[i].0 == name && &r.events[i].2 == props);
                            match found {
                                Some(i) => {
                                    used_events[i] = true;
                                    groups.entry(format!("e{:?}", a.route)).or_default().push((a.order, i, self.m.op_seq.get(&a.submit).map_or(0, |x| x.1)));
                                }
                                None if *must => out.push(f(
                                    "attach",
                                    format!("event lost ({}){q}", route_name(&a.route)),
                                    format!("event {name} missing on {} (has {:?})", e.name, r.events.iter().map(|x| &x.0).collect::<Vec<_>>()),
                                )),
                                None => {}
                            }
                        }
                    }
                }
                for (i, u) in used_props.iter().enumerate() {
                    if !u {
                        out.push(f("attach", format!("property on a record it was not attached to (or twice){q}"), format!("{:?} on {}", r.props[i], e.name)));
                    }
                }
                for (i, u) in used_events.iter().enumerate() {
                    if !u {
                        out.push(f("attach", format!("event on a record it was not attached to (or twice){q}"), format!("{:?} on {}", r.events[i].0, e.name)));
                    }
                }
                for (g, mut v) in groups {
                    v.sort();
                    for w in v.windows(2) {
                        if w[0].1 > w[1].1 {
                            let route = if g.contains("Local") { "through the local parent" } else if g.contains("Handle") { "by handle" } else { "at creation" };
                            // the later attachment left its thread first: it was made in an inner scope
                            // nested in another scope of the same span
                            let q = if w[1].2 < w[0].2 { " (the later one was submitted first: nested scopes of one span)" } else { "" };
                            out.push(f("attach-order", format!("attachments made {route} delivered out of issue order{q}"), format!("{} route {g}: {v:?}", e.name)));
                        }
                    }
                }
            }
        }
        }
        for x in all {
            if (x.rule == "attach-order") == order_only {
                out.push(x);
            }
        }
    }

    fn state(&self, out: &mut Vec<Finding>) {
        if self.ex.outcome != Outcome::Completed || self.m.parked_at_exit {
            return;
        }
        let b = &self.ex.stats_before;
        let a = &self.ex.stats_final;
        if a.active != b.active {
            out.push(f("state", "per-trace collector entry retained after the trace ended", format!("active collectors {} -> {}", b.active, a.active)));
        }
        if a.buffered != b.buffered {
            out.push(f("state", "buffered span sets retained", format!("{} -> {}", b.buffered, a.buffered)));
        }
        if a.danglings != b.danglings {
            out.push(f("state", "parked attachments retained", format!("{} -> {}", b.danglings, a.danglings)));
        }
        if a.receivers != b.receivers {
            out.push(f("state", "receiver of an exited thread retained", format!("{} -> {}", b.receivers, a.receivers)));
        }
    }

    fn ctx(&self, out: &mut Vec<Finding>) {
        for e in &self.m.ctxs {
            let Some(o) = find_obs(self.ex, e) else {
                continue;
            };
            let ObsVal::Ctx(got) = &o.val else { continue };
            let where_ = if e.label.is_empty() {
                self.program.actors[e.at.0].ops.get(e.at.1).map(op_kind).unwrap_or_default()
            } else {
                "inside adapter call".to_string()
            };
            match (&e.ctx, got) {
                (ExpCtx::Any, _) => {}
                (ExpCtx::None, None) => {}
                (ExpCtx::None, Some(c)) => out.push(f("ctx", format!("context where none is defined ({where_})"), format!("{:?}: got {c:?}", e.at))),
                (ExpCtx::Some { .. }, None) => out.push(f("ctx", format!("no context where one is defined ({where_})"), format!("{:?}: expected {:?}", e.at, e.ctx))),
                (ExpCtx::Some { trace, span, sampled }, Some(c)) => {
                    if c.trace != *trace {
                        out.push(f("ctx", format!("context with wrong trace id ({where_})"), format!("{:?}: {:x} vs {:x}", e.at, c.trace.0, trace.0)));
                    }
                    if c.sampled != *sampled {
                        out.push(f("ctx", format!("context with wrong sampled flag ({where_})"), format!("{:?}", e.at)));
                    }
                    if !resolve(&self.idmap, span, c.span) {
                        out.push(f(
                            "ctx",
                            format!("context names the wrong span ({where_})"),
                            format!("{:?}: got {:x}, expected {span:?} = {:x?}", e.at, c.span, match span {
                                PRef::Span(n) => self.idmap.get(n).cloned().unwrap_or_default(),
                                PRef::Remote(v) => [*v].into_iter().collect(),
                            }),
                        ));
                    }
                }
            }
        }
        // distinct spans must have distinct ids also when only seen through contexts
        let mut owner: HashMap<u64, &str> = HashMap::new();
        for (name, ids) in &self.idmap {
            for id in ids {
                if let Some(prev) = owner.insert(*id, name.as_str()) {
                    if prev != name {
                        out.push(f("ctx", "two spans share a span id", format!("{prev} and {name}")));
                    }
                }
            }
        }
    }

    fn lazy(&self, out: &mut Vec<Finding>) {
        for c in &self.m.closures {
            if !c.must_be_zero {
                continue;
            }
            if let Some(o) = self.ex.obs.iter().find(|o| (o.actor, o.op) == c.at && o.label.is_empty()) {
                if o.closures > 0 {
                    let opname = self.program.actors[c.at.0].ops.get(c.at.1).map(op_kind).unwrap_or_default();
                    out.push(f("lazy", format!("property closure of a non-recording {opname} was invoked"), format!("{:?}", c.at)));
                }
            }
        }
    }

    fn op_obs(&self, at: OpRef) -> Option<&crate::interp::Obs> {
        self.ex.obs.iter().find(|o| (o.actor, o.op) == at && o.label.is_empty())
    }

    fn elapsed(&self, out: &mut Vec<Finding>) {
        for (at, created) in &self.m.elapsed {
            if let Some(o) = self.op_obs(*at) {
                match (&o.val, created) {
                    (ObsVal::ElapsedNs(Some(_)), None) => out.push(f("elapsed", "elapsed() is Some for a span that is not recording", format!("{at:?}"))),
                    (ObsVal::ElapsedNs(None), Some(_)) => out.push(f("elapsed", "elapsed() is None for a recording span", format!("{at:?}"))),
                    (ObsVal::ElapsedNs(Some(v)), Some(c)) => {
                        if let Some(oc) = self.op_obs(*c) {
                            let lo = o.mono_begin_ns.saturating_sub(oc.mono_end_ns);
                            let hi = o.mono_end_ns.saturating_sub(oc.mono_begin_ns);
                            let tol = 30_000 + hi / 500;
                            if *v + tol < lo || *v > hi + tol {
                                out.push(f("elapsed", "elapsed() is not the time since the span started", format!("{at:?}: {v} ns, bracket [{lo}, {hi}]")));
                            }
                        }
                    }
                    _ => {}
                }
            }
        }
    }

    fn times(&self, out: &mut Vec<Finding>) {
        let win_lo = self.ex.unix_begin_ns.saturating_sub(10_000_000);
        let win_hi = self.ex.unix_end_ns + 10_000_000;
        for (ei, e) in self.m.erecs.iter().enumerate() {
            if e.count != 1 {
                continue;
            }
            for &mi in &self.by_erec[ei] {
                let r = self.matched[mi].rec;
                let kind = kind_of(e);
                if r.begin < win_lo || r.begin > win_hi {
                    out.push(f("times", format!("begin time of a {kind} outside the wall-clock window of the run"), format!("{}: {} not in [{win_lo}, {win_hi}]", e.name, r.begin)));
                }
                if let (Some(ob), Some(oe)) = (self.op_obs(e.begin_op), self.op_obs(e.end_op)) {
                    let lo = oe.mono_begin_ns.saturating_sub(ob.mono_end_ns);
                    let hi = oe.mono_end_ns.saturating_sub(ob.mono_begin_ns);
                    let tol = 30_000 + hi / 500;
                    if r.dur + tol < lo || r.dur > hi + tol {
                        out.push(f(
                            "times",
                            format!("duration of a {kind} is not the time between its start and its finish"),
                            format!("{}: {} ns, bracket [{lo}, {hi}] (start op {:?}, end op {:?})", e.name, r.dur, e.begin_op, e.end_op),
                        ));
                    }
                    let ulo = ob.unix_begin_ns.saturating_sub(10_000_000);
                    let uhi = ob.unix_end_ns + 10_000_000;
                    if ob.unix_begin_ns > 0 && (r.begin < ulo || r.begin > uhi) {
                        out.push(f("times", format!("begin time of a {kind} is not when it started"), format!("{}: {} not in [{ulo}, {uhi}]", e.name, r.begin)));
                    }
                }
                // events recorded inside a local span lie within it
                if e.local {
                    for (name, ts, _) in &r.events {
                        if *ts < r.begin || *ts > r.begin + r.dur {
                            out.push(f("times", "event timestamp outside the local span it was recorded in", format!("{name} on {}: {ts} not in [{}, {}]", e.name, r.begin, r.begin + r.dur)));
                        }
                    }
                }
                for (name, ts, _) in &r.events {
                    if *ts < win_lo || *ts > win_hi {
                        out.push(f("times", "event timestamp outside the wall-clock window of the run", format!("{name} on {}", e.name)));
                    }
                }
                // nesting: within the same report call and copy, a local span lies inside its
                // enclosing local span
                if let Some(pn) = &e.local_parent {
                    let b = self.matched[mi].batch;
                    for (pi, pe) in self.m.erecs.iter().enumerate() {
                        if pe.set_uid == e.set_uid && pe.emit == e.emit && &pe.name == pn && pe.trace == e.trace && pe.root == e.root {
                            for &pmi in &self.by_erec[pi] {
                                if self.matched[pmi].batch == b && self.matched[pmi].rec.id == r.parent {
                                    let p = self.matched[pmi].rec;
                                    if r.begin < p.begin || r.begin + r.dur > p.begin + p.dur {
                                        out.push(f("times", "local span not inside its enclosing local span", format!("{} [{}, +{}] in {} [{}, +{}]", e.name, r.begin, r.dur, pn, p.begin, p.dur)));
                                    }
                                }
                            }
                        }
                    }
                }
            }
        }
        // siblings do not overlap (same set, same copy, same report call, same enclosing span)
        let mut groups: BTreeMap<(usize, usize, u128, String, Option<String>, usize), Vec<(usize, u64, u64, String)>> = BTreeMap::new();
        for (ei, e) in self.m.erecs.iter().enumerate() {
            if !e.local || e.count != 1 || e.set_uid == 0 {
                continue;
            }
            for &mi in &self.by_erec[ei] {
                let r = self.matched[mi].rec;
                groups
                    .entry((e.set_uid, e.emit, e.trace.0, e.root.clone(), e.local_parent.clone(), self.matched[mi].batch))
                    .or_default()
                    .push((e.order, r.begin, r.begin + r.dur, e.name.clone()));
            }
        }
        for (_, mut v) in groups {
            v.sort();
            for w in v.windows(2) {
                if w[0].2 > w[1].1 {
                    out.push(f("times", "sibling local spans overlap", format!("{} ends {} after {} begins {}", w[0].3, w[0].2, w[1].3, w[1].1)));
                }
            }
        }
    }

    fn sets(&self, out: &mut Vec<Finding>) {
        // (a) copies of one span (multi-parent span, or a local-span set under several parents)
        let mut copies: BTreeMap<(usize, String), Vec<(usize, &Rec, usize)>> = BTreeMap::new();
        for (ei, e) in self.m.erecs.iter().enumerate() {
            if e.count != 1 {
                continue;
            }
            for &mi in &self.by_erec[ei] {
                copies.entry((e.set_uid, e.name.clone())).or_default().push((self.matched[mi].batch, self.matched[mi].rec, ei));
            }
        }
        for ((uid, name), v) in &copies {
            let (b0, r0, e0) = v[0];
            for &(b, r, e1) in &v[1..] {
                // two parents in one trace: the known mount-by-span-id weakness (K1) applies
                let same_trace = self.m.erecs[e0].trace == self.m.erecs[e1].trace && self.m.erecs[e0].root == self.m.erecs[e1].root;
                let what = if *uid == 0 { "multi-parent span" } else if same_trace { "local-span set pushed to two parents of one trace" } else { "pushed local-span set" };
                if r.id != r0.id {
                    out.push(f("sets", format!("copies of a {what} have different span ids"), name.clone()));
                }
                let dtol = if b == b0 { 0 } else { 2 };
                if r.dur.abs_diff(r0.dur) > dtol {
                    out.push(f("sets", format!("copies of a {what} have different durations"), format!("{name}: {} vs {}", r.dur, r0.dur)));
                }
                let btol = if b == b0 { 0 } else { 1_000_000 };
                if r.begin.abs_diff(r0.begin) > btol {
                    out.push(f("sets", format!("copies of a {what} have different begin times"), format!("{name}: {} vs {}", r.begin, r0.begin)));
                }
                if *uid != 0 {
                    // attachments inside a set travel with it; those of thread-safe spans are per trace
                    if r.props != r0.props {
                        out.push(f("sets", format!("copies of a {what} have different properties"), format!("{name}: {:?} vs {:?}", r.props, r0.props)));
                    }
                    let ev = |x: &Rec| x.events.iter().map(|e| (e.0.clone(), e.2.clone())).collect::<Vec<_>>();
                    if ev(r) != ev(r0) {
                        out.push(f("sets", format!("copies of a {what} have different events"), name.clone()));
                    }
                }
            }
        }
        // (b) to_span_records
        for exp in &self.m.set_records {
            let Some(o) = self.op_obs(exp.at) else { continue };
            let ObsVal::Records(got) = &o.val else { continue };
            let ids: HashMap<&str, u64> = got.iter().map(|r| (r.name.as_str(), r.id)).collect();
            let mut used = vec![false; got.len()];
            let mut offset: Option<(i128, String)> = None;
            for e in &exp.recs {
                let hit = (0..got.len()).find(|&i| {
                    !used[i]
                        && got[i].name == e.name
                        && got[i].trace == e.trace
                        && match &e.parent {
                            PRef::Remote(v) => got[i].parent == *v,
                            PRef::Span(n) => ids.get(n.as_str()) == Some(&got[i].parent),
                        }
                });
                let Some(i) = hit else {
                    out.push(f("sets", "to_span_records misses a record or gives it a wrong parent/trace", format!("{} (expected parent {:?}) in {:?}", e.name, e.parent, got.iter().map(|r| (&r.name, r.parent)).collect::<Vec<_>>())));
                    continue;
                };
                used[i] = true;
                let r = &got[i];
                // attachments recorded inside the set
                let mut exp_props: Vec<(String, String)> = e.props.clone();
                let mut exp_events: Vec<String> = vec![];
                for a in &e.inset {
                    match &a.kind {
                        AttKind::Prop(..) => exp_props.extend(att_pairs(a)),
                        AttKind::Event(n, _) => exp_events.push(n.clone()),
                    }
                }
                let mut gp = r.props.clone();
                gp.sort();
                exp_props.sort();
                if gp != exp_props {
                    out.push(f("sets", "to_span_records: wrong properties", format!("{}: {:?} vs {:?}", e.name, r.props, exp_props)));
                }
                let mut ge: Vec<String> = r.events.iter().map(|x| x.0.clone()).collect();
                ge.sort();
                exp_events.sort();
                if ge != exp_events {
                    out.push(f("sets", "to_span_records: wrong events", format!("{}: {:?} vs {:?}", e.name, ge, exp_events)));
                }
                // against the delivered copies of the same set
                if let Some(v) = copies.get(&(e.set_uid, e.name.clone())) {
                    let (_, d, _) = v[0];
                    if d.id != r.id {
                        out.push(f("sets", "to_span_records and the delivered copy disagree on the span id", e.name.clone()));
                    }
                    if d.dur.abs_diff(r.dur) > 2 {
                        out.push(f("sets", "to_span_records and the delivered copy disagree on the duration", format!("{}: {} vs {}", e.name, r.dur, d.dur)));
                    }
                    let off = d.begin as i128 - r.begin as i128;
                    match &offset {
                        None => offset = Some((off, e.name.clone())),
                        Some((o0, n0)) => {
                            if (off - o0).abs() > 2_000 {
                                out.push(f("sets", "to_span_records and the delivered copy disagree on relative times", format!("{} vs {}: offsets {off} / {o0}", e.name, n0)));
                            }
                        }
                    }
                }
            }
            for (i, u) in used.iter().enumerate() {
                if !u {
                    out.push(f("sets", "to_span_records returns a record the set does not define", got[i].name.clone()));
                }
            }
        }
    }
}

fn find_obs<'a>(ex: &'a Execution, e: &ExpObs) -> Option<&'a crate::interp::Obs> {
    if e.label.is_empty() {
        ex.obs.iter().find(|o| (o.actor, o.op) == e.at && o.label.is_empty())
    } else {
        ex.obs.iter().find(|o| o.label == e.label)
    }
}

fn kind_of(e: &ERec) -> &'static str {
    if e.is_root {
        "root record"
    } else if e.local {
        "local-span record"
    } else {
        "span record"
    }
}

fn route_name(r: &Route) -> &'static str {
    match r {
        Route::Creation => "at creation",
        Route::Handle(_) => "by handle",
        Route::Local(_) => "through the local parent",
    }
}

pub fn op_kind(op: &Op) -> String {
    let s = format!("{op:?}");
    let end = s.find(|c: char| !c.is_alphanumeric()).unwrap_or(s.len());
    let mut k = s[..end].to_string();
    if let Op::Reentrant { outer, inner } = op {
        k = format!("{} inside the closure of {}", inner.first().map(op_kind).unwrap_or_default(), op_kind(outer));
    }
    k
}

pub fn strip_numbers(s: &str) -> String {
    let mut out = String::new();
    let mut last_digit = false;
    for c in s.chars() {
        if c.is_ascii_digit() {
            if !last_digit {
                out.push('N');
            }
            last_digit = true;
        } else {
            out.push(c);
            last_digit = false;
        }
    }
    out
}
