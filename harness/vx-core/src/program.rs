//! Programs over the fastrace API: a list of actors, each a list of operations. The same program
//! text is interpreted against the real library (`interp.rs`) and against the reference model
//! (`model.rs`).

use serde::Deserialize;
use serde::Serialize;

/// Key/value pairs or event properties.
pub type Props = Vec<(String, String)>;

#[derive(Debug, Clone, Copy, PartialEq, Eq, Hash, PartialOrd, Ord)]
pub struct U128(pub u128);

impl Serialize for U128 {
    fn serialize<S: serde::Serializer>(&self, s: S) -> Result<S::Ok, S::Error> {
        s.serialize_str(&format!("{:x}", self.0))
    }
}

impl<'de> Deserialize<'de> for U128 {
    fn deserialize<D: serde::Deserializer<'de>>(d: D) -> Result<Self, D::Error> {
        let s = String::deserialize(d)?;
        u128::from_str_radix(&s, 16).map(U128).map_err(serde::de::Error::custom)
    }
}

#[derive(Debug, Clone, PartialEq, Eq, Hash, Serialize, Deserialize)]
pub enum Op {
    // ---- thread-safe spans (slots are shared between actors) ----
    Root { slot: u32, name: String, trace: U128, remote_parent: u64, sampled: bool, props: Props },
    /// `enter_with_parent` when `single` (exactly one parent), else `enter_with_parents`.
    Child { slot: u32, name: String, parents: Vec<u32>, single: bool, props: Props },
    /// `Span::enter_with_local_parent`
    ChildLocal { slot: u32, name: String, props: Props },
    /// `Span::noop()` into a slot
    Noop { slot: u32 },
    /// `Span::root(name, SpanContext::from_span(of))`, optionally through the traceparent codec;
    /// a no-op span when there is no context
    RootFromSpan { slot: u32, name: String, of: u32, w3c: bool },
    /// `Span::root(name, SpanContext::current_local_parent())`
    RootFromLocal { slot: u32, name: String, w3c: bool },
    AddProps { slot: u32, props: Props },
    AddEvent { slot: u32, name: String, props: Props },
    Cancel { slot: u32 },
    Finish { slot: u32 },
    ObserveSpan { slot: u32 },
    Elapsed { slot: u32 },
    // ---- thread-local scopes (a per-actor stack of guards) ----
    SetLocalParent { slot: u32 },
    LocalEnter { name: String, props: Props },
    LcStart,
    /// drop the innermost guard (local span, local-parent guard, or local collector)
    Pop,
    /// the innermost guard must be a local collector: `collect()` into a shared set
    LcCollect { set: u32 },
    LocalAddProps { props: Props },
    LocalAddEvent { name: String, props: Props },
    ObserveLocal,
    // ---- detached local span sets ----
    PushChildSpans { set: u32, slot: u32 },
    ToRecords { set: u32, trace: U128, span_id: u64 },
    DropSet { set: u32 },
    // ---- futures / streams / sinks (ids are shared between actors) ----
    /// wrap a scripted future: `script[i]` is the number of local spans recorded by poll i; the
    /// future is `Pending` on all polls but the last.
    MkInSpan { fut: u32, slot: u32, polls: u32, tag: String, inner_enter_on_poll: bool },
    MkEnterOnPoll { fut: u32, polls: u32, tag: String },
    /// `in_span(outer)` around `in_span(inner)`
    MkNested { fut: u32, outer: u32, inner: u32, polls: u32, tag: String },
    Poll { fut: u32 },
    MkStream { fut: u32, slot: u32, items: u32, pending_first: bool, tag: String },
    PollNext { fut: u32 },
    MkSink {
        fut: u32,
        slot: u32,
        tag: String,
        pending_first: bool,
        /// poll_ready, start_send and poll_flush of the inner sink return Err
        #[serde(default)]
        failing: bool,
    },
    SinkReady { fut: u32 },
    SinkSend { fut: u32 },
    SinkFlush { fut: u32 },
    SinkClose { fut: u32 },
    DropFut { fut: u32 },
    // ---- re-entrancy: run `inner` from inside the property closure of `outer` ----
    Reentrant { outer: Box<Op>, inner: Vec<Op> },
    // ---- collector / harness ----
    Cycle,
    Flush,
    Signal(u32),
    Wait(u32),
    /// fill this thread's command ring until exactly `leave` slots are free
    Fill { leave: usize, via: u32 },
    /// open scopes until the scope limit is `leave` short of being reached
    FillScopes { slot: u32, leave: usize },
    /// record local spans in the current scope until the span limit is `leave` short
    FillLocalSpans { leave: usize },
    /// drop all guards opened by FillScopes
    Unfill,
    BusyWait { micros: u64 },
    /// Opens and closes `n` empty local-collector scopes (and as many scopes of `slot`'s span if it is
    /// given) in bulk: a thread that has been tracing for a long time.
    ChurnScopes { n: u32, slot: Option<u32> },
    /// `set_reporter` again, with the same configuration and an equivalent reporter
    SetReporter,
    /// Builds `Event::new(name)` now and keeps it; a later AddEvent / LocalAddEvent with the same
    /// name (names start with "pre.") records that value instead of building a fresh one.
    BuildEvent { name: String },
    /// `Span::root(name, SpanContext::random())` (also exercises `SpanContext::default()`)
    RootRandom { slot: u32, name: String },
    /// `TraceId::random()`, `SpanId::random()`, `SpanContext::random()`, `SpanContext::default()`
    RandomIds,
    /// run `inner` from a thread-local destructor when this actor's thread exits. `early`: the
    /// destructor is registered now (place the op before any tracing so that it runs after
    /// fastrace's and rand's thread-locals are gone); else after `warm`-ing the tracing state.
    AtThreadExit { inner: Vec<Op> },
    /// make sure this thread's command queue exists and is registered (a thread that traced before)
    Warm,
}

#[derive(Debug, Clone, PartialEq, Eq, Hash, Serialize, Deserialize)]
pub enum ActorKind {
    Worker,
    /// Runs `Op::Cycle`s. `atomic`: each cycle is one step; else it yields between receivers, at
    /// the empty/abandoned check and at the first `pop_yields` pops.
    Collector { atomic: bool, pop_yields: u32 },
}

#[derive(Debug, Clone, PartialEq, Eq, Hash, Serialize, Deserialize)]
pub struct Actor {
    pub name: String,
    pub kind: ActorKind,
    pub ops: Vec<Op>,
    /// the actor's OS thread is only created after this other actor's thread has exited and been
    /// joined (thread-local storage of the exited thread may be handed to the new one)
    #[serde(default)]
    pub after_exit_of: Option<usize>,
}

#[derive(Debug, Clone, PartialEq, Eq, Hash, Serialize, Deserialize)]
pub struct Program {
    pub name: String,
    pub actors: Vec<Actor>,
}

impl Program {
    pub fn new(name: impl Into<String>) -> Self {
        Program { name: name.into(), actors: Vec::new() }
    }
    pub fn worker(mut self, name: &str, ops: Vec<Op>) -> Self {
        self.actors.push(Actor { name: name.into(), kind: ActorKind::Worker, ops, after_exit_of: None });
        self
    }
    pub fn worker_after(mut self, name: &str, after: usize, ops: Vec<Op>) -> Self {
        self.actors.push(Actor { name: name.into(), kind: ActorKind::Worker, ops, after_exit_of: Some(after) });
        self
    }
    pub fn collector(mut self, cycles: usize, atomic: bool, pop_yields: u32) -> Self {
        self.actors.push(Actor {
            name: "collector".into(),
            kind: ActorKind::Collector { atomic, pop_yields },
            ops: vec![Op::Cycle; cycles],
            after_exit_of: None,
        });
        self
    }
    pub fn short(&self) -> String {
        let mut s = String::new();
        for a in &self.actors {
            s.push_str(&a.name);
            s.push('[');
            for (i, op) in a.ops.iter().enumerate() {
                if i > 0 {
                    s.push(' ');
                }
                s.push_str(&op.short());
            }
            s.push_str("] ");
        }
        s
    }
}

fn ps(p: &Props) -> String {
    if p.is_empty() {
        String::new()
    } else {
        format!("{{{}}}", p.iter().map(|(k, v)| format!("{k}={v}")).collect::<Vec<_>>().join(","))
    }
}

impl Op {
    pub fn short(&self) -> String {
        match self {
            Op::Root { slot, name, trace, remote_parent, sampled, props } => format!(
                "root#{slot}:{name}(t{:x},rp{remote_parent:x}{}){}",
                trace.0,
                if *sampled { "" } else { ",unsampled" },
                ps(props)
            ),
            Op::Child { slot, name, parents, single, props } => {
                format!("child#{slot}:{name}<{parents:?}{}>{}", if *single { "" } else { "*" }, ps(props))
            }
            Op::ChildLocal { slot, name, props } => format!("lchild#{slot}:{name}{}", ps(props)),
            Op::Noop { slot } => format!("noop#{slot}"),
            Op::RootFromSpan { slot, name, of, w3c } => format!("remote#{slot}:{name}<ctx(#{of}){}>", if *w3c { ",w3c" } else { "" }),
            Op::RootFromLocal { slot, name, w3c } => format!("remote#{slot}:{name}<lctx{}>", if *w3c { ",w3c" } else { "" }),
            Op::AddProps { slot, props } => format!("prop#{slot}{}", ps(props)),
            Op::AddEvent { slot, name, props } => format!("event#{slot}:{name}{}", ps(props)),
            Op::Cancel { slot } => format!("cancel#{slot}"),
            Op::Finish { slot } => format!("finish#{slot}"),
            Op::ObserveSpan { slot } => format!("ctx#{slot}"),
            Op::Elapsed { slot } => format!("elapsed#{slot}"),
            Op::SetLocalParent { slot } => format!("scope#{slot}("),
            Op::LocalEnter { name, props } => format!("{name}{}(", ps(props)),
            Op::LcStart => "lc(".into(),
            Op::Pop => ")".into(),
            Op::LcCollect { set } => format!(")->set{set}"),
            Op::LocalAddProps { props } => format!("lprop{}", ps(props)),
            Op::LocalAddEvent { name, props } => format!("levent:{name}{}", ps(props)),
            Op::ObserveLocal => "lctx".into(),
            Op::PushChildSpans { set, slot } => format!("push(set{set}->#{slot})"),
            Op::ToRecords { set, .. } => format!("torecords(set{set})"),
            Op::DropSet { set } => format!("dropset{set}"),
            Op::MkInSpan { fut, slot, polls, inner_enter_on_poll, .. } => {
                format!("f{fut}=in_span(#{slot},polls={polls}{})", if *inner_enter_on_poll { ",eop" } else { "" })
            }
            Op::MkEnterOnPoll { fut, polls, .. } => format!("f{fut}=enter_on_poll(polls={polls})"),
            Op::MkNested { fut, outer, inner, polls, .. } => {
                format!("f{fut}=in_span(#{outer},in_span(#{inner},polls={polls}))")
            }
            Op::Poll { fut } => format!("poll(f{fut})"),
            Op::MkStream { fut, slot, items, .. } => format!("f{fut}=stream.in_span(#{slot},items={items})"),
            Op::PollNext { fut } => format!("next(f{fut})"),
            Op::MkSink { fut, slot, failing, .. } => format!("f{fut}={}sink.in_span(#{slot})", if *failing { "failing-" } else { "" }),
            Op::SinkReady { fut } => format!("ready(f{fut})"),
            Op::SinkSend { fut } => format!("send(f{fut})"),
            Op::SinkFlush { fut } => format!("flush(f{fut})"),
            Op::SinkClose { fut } => format!("close(f{fut})"),
            Op::DropFut { fut } => format!("drop(f{fut})"),
            Op::Reentrant { outer, inner } => format!(
                "{}[[{}]]",
                outer.short(),
                inner.iter().map(|o| o.short()).collect::<Vec<_>>().join(" ")
            ),
            Op::Cycle => "CYCLE".into(),
            Op::Flush => "FLUSH".into(),
            Op::Signal(f) => format!("sig{f}"),
            Op::Wait(f) => format!("wait{f}"),
            Op::Fill { leave, .. } => format!("fill(leave={leave})"),
            Op::FillScopes { leave, .. } => format!("fillscopes(leave={leave})"),
            Op::FillLocalSpans { leave } => format!("filllocals(leave={leave})"),
            Op::Unfill => "unfill".into(),
            Op::BusyWait { micros } => format!("busy({micros}us)"),
            Op::ChurnScopes { n, slot } => format!("churn({n} scopes{})", if slot.is_some() { " of a span" } else { "" }),
            Op::SetReporter => "set_reporter".into(),
            Op::BuildEvent { name } => format!("build-event:{name}"),
            Op::Warm => "warm".into(),
            Op::RootRandom { slot, name } => format!("root#{slot}:{name}(random)"),
            Op::RandomIds => "random-ids".into(),
            Op::AtThreadExit { inner } => format!("at-thread-exit[[{}]]", inner.iter().map(|o| o.short()).collect::<Vec<_>>().join(" ")),
        }
    }
}

pub fn p(k: &str, v: &str) -> Props {
    vec![(k.to_string(), v.to_string())]
}
