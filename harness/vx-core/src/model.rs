//! Reference model: what a program must make observable, computed from the program text and the
//! order in which its operations ran, without looking at fastrace. No queues, no collector cycles,
//! no failure modes: it defines spans, parents, traces, attachments, contexts and happens-before.

use std::collections::BTreeMap;
use std::collections::HashMap;

use serde::Deserialize;
use serde::Serialize;

use crate::explore::Execution;
use crate::interp::ObsVal;
use crate::program::*;
use crate::sched::Ev;

pub const SCOPE_LIMIT: usize = 4096;
pub const LOCAL_LIMIT: usize = 10240;

pub type OpRef = (usize, usize);

#[derive(Debug, Clone, PartialEq, Eq, Hash, Serialize, Deserialize)]
pub enum PRef {
    Remote(u64),
    Span(String),
}

/// One entry of a span's parent set: which trace (instance), under which parent.
#[derive(Debug, Clone, PartialEq, Eq, Hash, Serialize, Deserialize)]
pub struct Item {
    pub trace: U128,
    /// trace instance = name of the root span that started it
    pub root: String,
    pub parent: PRef,
    pub sampled: bool,
}

#[derive(Debug, Clone)]
pub struct MSpan {
    pub name: String,
    pub items: Vec<Item>,
    pub is_root: bool,
    pub noop: bool,
    pub created: OpRef,
    pub finished: Option<OpRef>,
    pub cancelled: Option<OpRef>,
    pub props: Props,
}

impl MSpan {
    fn issue(&self) -> Vec<Item> {
        self.items
            .iter()
            .map(|i| Item { trace: i.trace, root: i.root.clone(), parent: PRef::Span(self.name.clone()), sampled: i.sampled })
            .collect()
    }
}

#[derive(Debug, Clone, PartialEq, Eq, Serialize, Deserialize)]
pub enum AttKind {
    Prop(String, String),
    Event(String, Props),
}

#[derive(Debug, Clone, PartialEq, Eq, Hash, Serialize, Deserialize)]
pub enum Route {
    Creation,
    Handle(usize),
    Local(usize),
}

#[derive(Debug, Clone)]
pub struct Att {
    pub kind: AttKind,
    pub route: Route,
    /// operation that made the attachment
    pub by: OpRef,
    /// operation that submitted it (== `by` for handle route, the scope end for the local route)
    pub submit: OpRef,
    /// issue order within (route)
    pub order: usize,
}

#[derive(Debug, Clone)]
pub enum LKind {
    Span,
    Event(Props),
    Props(Props),
}

#[derive(Debug, Clone)]
pub struct LRec {
    pub name: String,
    /// enclosing local span in the same set; `None`: top level of the set
    pub parent: Option<String>,
    pub kind: LKind,
    pub props: Props,
    pub by: OpRef,
    pub actor: usize,
    pub order: usize,
    pub closed: bool,
    pub closed_by: Option<OpRef>,
}

#[derive(Debug, Clone)]
struct Line {
    token: Option<Vec<Item>>,
    sampled: bool,
    open: Vec<String>,
    lrecs: Vec<LRec>,
}

#[derive(Debug, Clone)]
enum G {
    Line,
    NoopGuard,
    Local { name: String, recorded: bool },
}

/// A record the program is entitled to see.
#[derive(Debug, Clone)]
pub struct ERec {
    pub trace: U128,
    pub root: String,
    pub name: String,
    pub parent: PRef,
    pub props: Props,
    /// attachments that travel in the same span set (mounted unconditionally)
    pub inset: Vec<Att>,
    /// operation whose queue push submits the record
    pub submit: OpRef,
    pub is_root: bool,
    pub local: bool,
    /// how many identical records are expected (bulk fills)
    pub count: usize,
    /// operation that started the span / that ended it (for a span still open when its set was
    /// collected: the collecting operation)
    pub begin_op: OpRef,
    pub end_op: OpRef,
    /// creation order within the program
    pub order: usize,
    /// identity of the span set the record travelled in (0: a thread-safe span on its own)
    pub set_uid: usize,
    /// enclosing local span in the same set
    pub local_parent: Option<String>,
    /// index into the span's parent set (thread-safe spans)
    pub copy: usize,
    /// identity of the delivered copy of a span set (one per submission and parent-set item)
    pub emit: usize,
}

/// An attachment that travels separately from its target (by handle, or at the top level of a
/// local scope): `target` is a thread-safe span.
#[derive(Debug, Clone)]
pub struct XAtt {
    /// which copy of the target (index into the target's parent set)
    pub copy: usize,
    pub root: String,
    pub trace: U128,
    pub target: String,
    pub att: Att,
}

#[derive(Debug, Clone, PartialEq, Serialize, Deserialize)]
pub enum ExpCtx {
    None,
    Some { trace: U128, span: PRef, sampled: bool },
    /// the model does not define it (scope limit exceeded …)
    Any,
}

#[derive(Debug, Clone)]
pub struct ExpObs {
    pub at: OpRef,
    pub label: String,
    pub ctx: ExpCtx,
}

#[derive(Debug, Clone)]
pub struct ExpClosure {
    pub at: OpRef,
    /// closures must not run (the operation acts on something that is not recording)
    pub must_be_zero: bool,
}

#[derive(Debug, Clone)]
pub struct ExpSetRecords {
    pub at: OpRef,
    pub recs: Vec<ERec>,
}

#[derive(Default)]
pub struct Model {
    pub spans: BTreeMap<String, MSpan>,
    pub erecs: Vec<ERec>,
    pub xatts: Vec<XAtt>,
    pub ctxs: Vec<ExpObs>,
    pub closures: Vec<ExpClosure>,
    /// (observing op, creating op of the span if it is recording)
    pub elapsed: Vec<(OpRef, Option<OpRef>)>,
    pub set_records: Vec<ExpSetRecords>,
    /// vector clocks per executed op
    pub clocks: HashMap<OpRef, Vec<u32>>,
    /// log sequence numbers of op begin/end
    pub op_seq: HashMap<OpRef, (u64, u64)>,
    /// ops during which a command was dropped because the ring was full
    pub dropped_in: HashMap<OpRef, u32>,
    /// ops whose effects the model does not define (limits exceeded …)
    pub undefined: Vec<String>,
    pub ill_formed: Vec<String>,
    /// roots by name → cancelled?
    pub cancelled_roots: Vec<String>,
    /// trace instance → finishing op of its root
    pub root_finish: HashMap<String, OpRef>,
    /// a thread exited with commit/drop commands still parked behind a full ring
    pub parked_at_exit: bool,
}

impl Model {
    /// `a` happens before or is `b`.
    pub fn hb(&self, a: OpRef, b: OpRef) -> bool {
        if a == b {
            return true;
        }
        match (self.clocks.get(&a), self.clocks.get(&b)) {
            (Some(ca), Some(cb)) => ca.iter().zip(cb.iter()).all(|(x, y)| x <= y) && ca != cb,
            _ => false,
        }
    }
}

struct Fut {
    kind: FutKind,
    spans: Vec<String>,
    total: u32,
    calls: u32,
    tag: String,
    eop: bool,
    pending_first: bool,
    toggled: bool,
    done: bool,
}

#[derive(PartialEq)]
enum FutKind {
    InSpan,
    EnterOnPoll,
    Stream,
    Sink,
}

struct Builder<'a> {
    program: &'a Program,
    m: Model,
    slots: HashMap<u32, String>,
    sets: HashMap<u32, (usize, OpRef, Vec<LRec>)>,
    futs: HashMap<u32, Fut>,
    lines: Vec<Vec<Line>>,
    guards: Vec<Vec<G>>,
    fill_lines: Vec<usize>,
    order: usize,
    no_reporter: bool,
}

impl<'a> Builder<'a> {
    fn span(&self, slot: u32) -> Option<&MSpan> {
        self.slots.get(&slot).and_then(|n| self.m.spans.get(n))
    }

    fn next_order(&mut self) -> usize {
        self.order += 1;
        self.order
    }

    fn new_span(&mut self, slot: u32, s: MSpan) {
        if self.slots.contains_key(&slot) {
            self.m.ill_formed.push(format!("slot {slot} reused while occupied"));
        }
        if self.m.spans.contains_key(&s.name) {
            self.m.ill_formed.push(format!("span name {} not unique", s.name));
        }
        self.slots.insert(slot, s.name.clone());
        self.m.spans.insert(s.name.clone(), s);
    }

    fn current_ctx(&self, actor: usize) -> ExpCtx {
        match self.lines[actor].last() {
            None => ExpCtx::None,
            Some(line) => match &line.token {
                None => ExpCtx::None,
                Some(items) => match items.first() {
                    None => ExpCtx::None,
                    Some(it) => ExpCtx::Some {
                        trace: it.trace,
                        span: line.open.last().map(|n| PRef::Span(n.clone())).unwrap_or(it.parent.clone()),
                        sampled: it.sampled,
                    },
                },
            },
        }
    }

    fn local_enter(&mut self, actor: usize, at: OpRef, name: &str, props: &Props) -> bool {
        let order = self.next_order();
        let recorded = match self.lines[actor].last_mut() {
            None => false,
            Some(line) => {
                if !line.sampled || line.lrecs.len() >= LOCAL_LIMIT {
                    false
                } else {
                    let parent = line.open.last().cloned();
                    line.lrecs.push(LRec {
                        name: name.to_string(),
                        parent,
                        kind: LKind::Span,
                        props: props.clone(),
                        by: at,
                        actor,
                        order,
                        closed: false,
                        closed_by: None,
                    });
                    line.open.push(name.to_string());
                    true
                }
            }
        };
        self.guards[actor].push(G::Local { name: name.to_string(), recorded });
        recorded
    }

    fn local_attach(&mut self, actor: usize, at: OpRef, kind: LKind) -> bool {
        let order = self.next_order();
        match self.lines[actor].last_mut() {
            None => false,
            Some(line) => {
                if !line.sampled || line.lrecs.len() >= LOCAL_LIMIT {
                    return false;
                }
                let parent = line.open.last().cloned();
                let name = match &kind {
                    LKind::Event(_) => String::new(),
                    _ => String::new(),
                };
                line.lrecs.push(LRec { name, parent, kind, props: vec![], by: at, actor, order, closed: true, closed_by: Some(at) });
                true
            }
        }
    }

    fn push_line(&mut self, actor: usize, token: Option<Vec<Item>>) -> bool {
        if self.lines[actor].len() >= SCOPE_LIMIT {
            self.guards[actor].push(G::NoopGuard);
            return false;
        }
        let sampled = match &token {
            Some(t) => t.iter().any(|i| i.sampled),
            None => true,
        };
        self.lines[actor].push(Line { token, sampled, open: vec![], lrecs: vec![] });
        self.guards[actor].push(G::Line);
        true
    }

    /// Turns the local records of a set into expected records under every sampled item.
    fn emit_set(&mut self, lrecs: &[LRec], items: &[Item], submit: OpRef, collected: OpRef, set_uid: usize, into_set_records: Option<&mut Vec<ERec>>) {
        let mut out = Vec::new();
        for (copy, it) in items.iter().enumerate().filter(|(_, i)| i.sampled) {
            let emit = self.next_order();
            // bulk-fill records are counted, not listed
            let mut fill: BTreeMap<(String, Option<String>), usize> = BTreeMap::new();
            for r in lrecs {
                if let LKind::Span = r.kind {
                    if r.name.starts_with("fill.") {
                        *fill.entry((r.name.clone(), r.parent.clone())).or_insert(0) += 1;
                        continue;
                    }
                    let parent = r.parent.clone().map(PRef::Span).unwrap_or(it.parent.clone());
                    let mut inset: Vec<Att> = r
                        .props
                        .iter()
                        .enumerate()
                        .map(|(i, (k, v))| Att {
                            kind: AttKind::Prop(k.clone(), v.clone()),
                            route: Route::Creation,
                            by: r.by,
                            submit,
                            order: i,
                        })
                        .collect();
                    inset.extend(
                        lrecs
                            .iter()
                            .filter(|a| a.parent.as_deref() == Some(r.name.as_str()))
                            .filter_map(|a| att_of(a, submit)),
                    );
                    out.push(ERec {
                        trace: it.trace,
                        root: it.root.clone(),
                        name: r.name.clone(),
                        parent,
                        props: vec![],
                        inset,
                        submit,
                        is_root: false,
                        local: true,
                        count: 1,
                        begin_op: r.by,
                        end_op: r.closed_by.unwrap_or(collected),
                        order: r.order,
                        set_uid,
                        local_parent: r.parent.clone(),
                        copy: 0,
                        emit,
                    });
                }
            }
            for ((name, parent), count) in fill {
                out.push(ERec {
                    trace: it.trace,
                    root: it.root.clone(),
                    name,
                    parent: parent.map(PRef::Span).unwrap_or(it.parent.clone()),
                    props: vec![],
                    inset: vec![],
                    submit,
                    is_root: false,
                    local: true,
                    count,
                    begin_op: submit,
                    end_op: submit,
                    order: 0,
                    set_uid,
                    local_parent: None,
                    copy: 0,
                    emit,
                });
            }
            // top-level attachments travel to the thread-safe span the set hangs under
            if into_set_records.is_none() {
                if let PRef::Span(target) = &it.parent {
                    for a in lrecs.iter().filter(|a| a.parent.is_none()) {
                        if let Some(att) = att_of(a, submit) {
                            self.m.xatts.push(XAtt { copy, root: it.root.clone(), trace: it.trace, target: target.clone(), att });
                        }
                    }
                }
            }
        }
        match into_set_records {
            Some(v) => v.extend(out),
            None => self.m.erecs.extend(out),
        }
    }

    fn pop_guard(&mut self, actor: usize, at: OpRef) -> Option<(Vec<LRec>, Option<Vec<Item>>)> {
        match self.guards[actor].pop() {
            None => {
                self.m.ill_formed.push(format!("{at:?}: pop on empty guard stack"));
                None
            }
            Some(G::NoopGuard) => None,
            Some(G::Local { name, recorded }) => {
                if recorded {
                    if let Some(line) = self.lines[actor].last_mut() {
                        if line.open.last() == Some(&name) {
                            line.open.pop();
                            if let Some(r) = line.lrecs.iter_mut().rev().find(|r| r.name == name) {
                                r.closed = true;
                                r.closed_by = Some(at);
                            }
                        } else {
                            self.m.ill_formed.push(format!("{at:?}: local span {name} closed out of order"));
                        }
                    }
                }
                None
            }
            Some(G::Line) => {
                let line = self.lines[actor].pop().expect("line");
                Some((line.lrecs, line.token))
            }
        }
    }

    fn finish_span(&mut self, name: &str, at: OpRef) {
        let Some(s) = self.m.spans.get_mut(name) else { return };
        if s.finished.is_some() {
            self.m.ill_formed.push(format!("span {name} finished twice"));
        }
        s.finished = Some(at);
        if s.noop {
            return;
        }
        let s = s.clone();
        if s.is_root {
            self.m.root_finish.insert(s.name.clone(), at);
        }
        for (copy, it) in s.items.iter().enumerate().filter(|(_, i)| i.sampled) {
            let inset: Vec<Att> = s
                .props
                .iter()
                .enumerate()
                .map(|(i, (k, v))| Att {
                    kind: AttKind::Prop(k.clone(), v.clone()),
                    route: Route::Creation,
                    by: s.created,
                    submit: at,
                    order: i,
                })
                .collect();
            self.m.erecs.push(ERec {
                trace: it.trace,
                root: it.root.clone(),
                name: s.name.clone(),
                parent: it.parent.clone(),
                props: vec![],
                inset,
                submit: at,
                is_root: s.is_root,
                local: false,
                count: 1,
                begin_op: s.created,
                end_op: at,
                order: 0,
                set_uid: 0,
                local_parent: None,
                copy,
                emit: 0,
            });
        }
    }

    fn script_call(&mut self, actor: usize, at: OpRef, tag: &str, what: &str, i: u32) {
        let name = format!("{tag}.{what}{i}");
        let ctx = self.current_ctx(actor);
        self.m.ctxs.push(ExpObs { at, label: format!("inside:{name}"), ctx });
        self.local_enter(actor, at, &name, &vec![]);
        self.local_attach(actor, at, LKind::Props(vec![(format!("{name}.k"), format!("{name}.v"))]));
        self.local_attach(actor, at, LKind::Event(vec![(format!("{name}.e"), String::new())]));
        self.pop_guard(actor, at);
    }

    fn with_fut_lines(&mut self, actor: usize, at: OpRef, fut: u32, body: impl FnOnce(&mut Self) -> bool) {
        // open one scope per span still held by the adapter (outermost first)
        let spans: Vec<String> = self.futs.get(&fut).map(|f| f.spans.clone()).unwrap_or_default();
        let mut opened = 0;
        for n in &spans {
            let tok = self.m.spans.get(n).filter(|s| !s.noop).map(|s| s.issue());
            match tok {
                Some(t) => {
                    self.push_line(actor, Some(t));
                }
                None => self.guards[actor].push(G::NoopGuard),
            }
            opened += 1;
        }
        let finished = body(self);
        // Ready: the adapter releases its spans (innermost first); whether that happens before or
        // after the scopes close is not something the model fixes.
        if finished {
            for n in spans.iter().rev() {
                self.finish_span(n, at);
            }
            if let Some(f) = self.futs.get_mut(&fut) {
                f.spans.clear();
                f.done = true;
            }
        }
        for _ in 0..opened {
            if let Some((lrecs, Some(items))) = self.pop_guard(actor, at) {
                { let uid = self.next_order(); self.emit_set(&lrecs, &items, at, at, uid, None); }
            }
        }
    }

    fn root_from(&mut self, actor: usize, idx: usize, slot: u32, name: &str, ctx: Option<(U128, PRef, bool)>) {
        let at = (actor, idx);
        self.m.ctxs.push(ExpObs {
            at,
            label: String::new(),
            ctx: match &ctx {
                Some((t, s, f)) => ExpCtx::Some { trace: *t, span: s.clone(), sampled: *f },
                None => ExpCtx::None,
            },
        });
        let s = match ctx {
            Some((trace, parent, sampled)) => MSpan {
                name: name.to_string(),
                items: vec![Item { trace, root: name.to_string(), parent, sampled }],
                is_root: true,
                noop: false,
                created: at,
                finished: None,
                cancelled: None,
                props: vec![],
            },
            None => MSpan {
                name: format!("noop@{}.{}.{}", actor, idx, self.next_order()),
                items: vec![],
                is_root: false,
                noop: true,
                created: at,
                finished: None,
                cancelled: None,
                props: vec![],
            },
        };
        self.new_span(slot, s);
    }

    fn apply(&mut self, actor: usize, idx: usize, op: &Op) {
        let at: OpRef = (actor, idx);
        match op {
            Op::Root { slot, name, .. } if self.no_reporter => {
                let _ = name;
                let s = MSpan {
                    name: format!("noop@{}.{}.{}", actor, idx, self.next_order()),
                    items: vec![],
                    is_root: false,
                    noop: true,
                    created: at,
                    finished: None,
                    cancelled: None,
                    props: vec![],
                };
                self.m.closures.push(ExpClosure { at, must_be_zero: true });
                self.new_span(*slot, s);
            }
            Op::Root { slot, name, trace, remote_parent, sampled, props } => {
                let s = MSpan {
                    name: name.clone(),
                    items: vec![Item {
                        trace: *trace,
                        root: name.clone(),
                        parent: PRef::Remote(*remote_parent),
                        sampled: *sampled,
                    }],
                    is_root: true,
                    noop: false,
                    created: at,
                    finished: None,
                    cancelled: None,
                    props: props.clone(),
                };
                self.m.closures.push(ExpClosure { at, must_be_zero: false });
                self.new_span(*slot, s);
            }
            Op::Child { slot, name, parents, single, props } => {
                let mut items = Vec::new();
                for p in parents {
                    match self.span(*p) {
                        Some(ps) if !ps.noop => items.extend(ps.issue()),
                        Some(_) => {}
                        None => self.m.ill_formed.push(format!("{at:?}: parent slot {p} empty")),
                    }
                }
                let _ = single;
                let noop = items.is_empty();
                self.m.closures.push(ExpClosure { at, must_be_zero: noop });
                let s = MSpan {
                    name: name.clone(),
                    items,
                    is_root: false,
                    noop,
                    created: at,
                    finished: None,
                    cancelled: None,
                    props: if noop { vec![] } else { props.clone() },
                };
                self.new_span(*slot, s);
            }
            Op::ChildLocal { slot, name, props } => {
                let items: Vec<Item> = match self.lines[actor].last() {
                    Some(Line { token: Some(items), open, .. }) => items
                        .iter()
                        .map(|i| Item {
                            trace: i.trace,
                            root: i.root.clone(),
                            parent: open.last().map(|n| PRef::Span(n.clone())).unwrap_or(i.parent.clone()),
                            sampled: i.sampled,
                        })
                        .collect(),
                    _ => vec![],
                };
                let noop = items.is_empty();
                self.m.closures.push(ExpClosure { at, must_be_zero: noop });
                let s = MSpan {
                    name: name.clone(),
                    items,
                    is_root: false,
                    noop,
                    created: at,
                    finished: None,
                    cancelled: None,
                    props: if noop { vec![] } else { props.clone() },
                };
                self.new_span(*slot, s);
            }
            Op::RootFromSpan { slot, name, of, .. } => {
                let ctx = match self.span(*of) {
                    Some(s) if !s.noop => s.items.first().map(|it| (it.trace, PRef::Span(s.name.clone()), it.sampled)),
                    _ => None,
                };
                self.root_from(actor, idx, *slot, name, ctx);
            }
            Op::RootFromLocal { slot, name, .. } => {
                let ctx = match self.current_ctx(actor) {
                    ExpCtx::Some { trace, span, sampled } => Some((trace, span, sampled)),
                    _ => None,
                };
                self.root_from(actor, idx, *slot, name, ctx);
            }
            Op::Noop { slot } => {
                let name = format!("noop@{}.{}.{}", actor, idx, self.next_order());
                let s = MSpan {
                    name,
                    items: vec![],
                    is_root: false,
                    noop: true,
                    created: at,
                    finished: None,
                    cancelled: None,
                    props: vec![],
                };
                self.new_span(*slot, s);
            }
            Op::AddProps { slot, props } => {
                let Some(s) = self.span(*slot).cloned() else {
                    self.m.ill_formed.push(format!("{at:?}: slot {slot} empty"));
                    return;
                };
                self.m.closures.push(ExpClosure { at, must_be_zero: s.noop });
                if s.noop {
                    return;
                }
                for (k, v) in props {
                    let order = self.next_order();
                    for (copy, it) in s.items.iter().enumerate().filter(|(_, i)| i.sampled) {
                        self.m.xatts.push(XAtt {
                            copy,
                            root: it.root.clone(),
                            trace: it.trace,
                            target: s.name.clone(),
                            att: Att {
                                kind: AttKind::Prop(k.clone(), v.clone()),
                                route: Route::Handle(actor),
                                by: at,
                                submit: at,
                                order,
                            },
                        });
                    }
                }
            }
            Op::AddEvent { slot, name, props } => {
                let Some(s) = self.span(*slot).cloned() else {
                    self.m.ill_formed.push(format!("{at:?}: slot {slot} empty"));
                    return;
                };
                // Event::with_properties evaluates its closure before the event reaches any span
                self.m.closures.push(ExpClosure { at, must_be_zero: false });
                if s.noop {
                    return;
                }
                let order = self.next_order();
                for (copy, it) in s.items.iter().enumerate().filter(|(_, i)| i.sampled) {
                    self.m.xatts.push(XAtt {
                        copy,
                        root: it.root.clone(),
                        trace: it.trace,
                        target: s.name.clone(),
                        att: Att {
                            kind: AttKind::Event(name.clone(), props.clone()),
                            route: Route::Handle(actor),
                            by: at,
                            submit: at,
                            order,
                        },
                    });
                }
            }
            Op::Cancel { slot } => {
                if let Some(n) = self.slots.get(slot).cloned() {
                    if let Some(s) = self.m.spans.get_mut(&n) {
                        if s.is_root && !s.noop {
                            s.cancelled = Some(at);
                            if !self.m.cancelled_roots.contains(&n) {
                                self.m.cancelled_roots.push(n);
                            }
                        }
                    }
                }
            }
            Op::Finish { slot } => match self.slots.remove(slot) {
                Some(n) => self.finish_span(&n, at),
                None => self.m.ill_formed.push(format!("{at:?}: finish of empty slot {slot}")),
            },
            Op::ObserveSpan { slot } => {
                let ctx = match self.span(*slot) {
                    Some(s) if !s.noop => match s.items.first() {
                        Some(it) => ExpCtx::Some { trace: it.trace, span: PRef::Span(s.name.clone()), sampled: it.sampled },
                        None => ExpCtx::None,
                    },
                    _ => ExpCtx::None,
                };
                self.m.ctxs.push(ExpObs { at, label: String::new(), ctx });
            }
            Op::Elapsed { slot } => {
                let some = self.span(*slot).filter(|s| !s.noop).map(|s| s.created);
                self.m.elapsed.push((at, some));
            }
            Op::SetLocalParent { slot } => {
                let tok = self.span(*slot).filter(|s| !s.noop).map(|s| s.issue());
                match tok {
                    Some(t) => {
                        if !self.push_line(actor, Some(t)) {
                            self.m.undefined.push(format!("{at:?}: scope limit reached"));
                        }
                    }
                    None => self.guards[actor].push(G::NoopGuard),
                }
            }
            Op::LocalEnter { name, props } => {
                let recorded = self.local_enter(actor, at, name, props);
                self.m.closures.push(ExpClosure { at, must_be_zero: !recorded });
            }
            Op::LcStart => {
                if !self.push_line(actor, None) {
                    self.m.undefined.push(format!("{at:?}: scope limit reached"));
                }
            }
            Op::Pop => {
                if let Some((lrecs, Some(items))) = self.pop_guard(actor, at) {
                    { let uid = self.next_order(); self.emit_set(&lrecs, &items, at, at, uid, None); }
                }
            }
            Op::LcCollect { set } => {
                // innermost guard that is a scope; it must be a local collector's
                let pos = self.guards[actor].iter().rposition(|g| !matches!(g, G::Local { .. }));
                match pos.map(|p| &self.guards[actor][p]) {
                    Some(G::Line) if self.lines[actor].last().map_or(false, |l| l.token.is_none()) => {
                        let pos = pos.unwrap();
                        self.guards[actor].remove(pos);
                        // local spans still open are closed by the collection; their guards do nothing later
                        for g in self.guards[actor][pos..].iter_mut() {
                            if let G::Local { recorded, .. } = g {
                                *recorded = false;
                            }
                        }
                        let line = self.lines[actor].pop().expect("line");
                        let uid = self.next_order();
                        self.sets.insert(*set, (uid, at, line.lrecs));
                    }
                    Some(G::NoopGuard) => {
                        let pos = pos.unwrap();
                        self.guards[actor].remove(pos);
                        let uid = self.next_order();
                        self.sets.insert(*set, (uid, at, vec![]));
                    }
                    _ => self.m.ill_formed.push(format!("{at:?}: collect without a local collector on top")),
                }
            }
            Op::LocalAddProps { props } => {
                let mut any = false;
                // one pseudo-span carries all pairs
                any |= self.local_attach(actor, at, LKind::Props(props.clone()));
                self.m.closures.push(ExpClosure { at, must_be_zero: !any });
            }
            Op::LocalAddEvent { name, props } => {
                let mut p = vec![(name.clone(), String::new())];
                p.extend(props.clone());
                self.local_attach(actor, at, LKind::Event(p));
                self.m.closures.push(ExpClosure { at, must_be_zero: false });
            }
            Op::ObserveLocal => {
                let ctx = self.current_ctx(actor);
                self.m.ctxs.push(ExpObs { at, label: String::new(), ctx });
            }
            Op::PushChildSpans { set, slot } => {
                let Some((uid, collected, lrecs)) = self.sets.get(set).cloned() else {
                    self.m.ill_formed.push(format!("{at:?}: no set {set}"));
                    return;
                };
                let tok = self.span(*slot).filter(|s| !s.noop).map(|s| s.issue());
                if let Some(items) = tok {
                    if !lrecs.is_empty() {
                        self.emit_set(&lrecs, &items, at, collected, uid, None);
                    }
                }
            }
            Op::ToRecords { set, trace, span_id } => {
                let Some((uid, collected, lrecs)) = self.sets.get(set).cloned() else {
                    self.m.ill_formed.push(format!("{at:?}: no set {set}"));
                    return;
                };
                let items = vec![Item { trace: *trace, root: String::new(), parent: PRef::Remote(*span_id), sampled: true }];
                let mut v = Vec::new();
                self.emit_set(&lrecs, &items, at, collected, uid, Some(&mut v));
                self.m.set_records.push(ExpSetRecords { at, recs: v });
            }
            Op::DropSet { set } => {
                self.sets.remove(set);
            }
            Op::MkInSpan { fut, slot, polls, tag, inner_enter_on_poll } => {
                let n = self.slots.remove(slot);
                if n.is_none() {
                    self.m.ill_formed.push(format!("{at:?}: slot {slot} empty"));
                }
                self.futs.insert(
                    *fut,
                    Fut {
                        kind: FutKind::InSpan,
                        spans: n.into_iter().collect(),
                        total: *polls,
                        calls: 0,
                        tag: tag.clone(),
                        eop: *inner_enter_on_poll,
                        pending_first: false,
                        toggled: false,
                        done: false,
                    },
                );
            }
            Op::MkEnterOnPoll { fut, polls, tag } => {
                self.futs.insert(
                    *fut,
                    Fut {
                        kind: FutKind::EnterOnPoll,
                        spans: vec![],
                        total: *polls,
                        calls: 0,
                        tag: tag.clone(),
                        eop: true,
                        pending_first: false,
                        toggled: false,
                        done: false,
                    },
                );
            }
            Op::MkNested { fut, outer, inner, polls, tag } => {
                let o = self.slots.remove(outer);
                let i = self.slots.remove(inner);
                if o.is_none() || i.is_none() {
                    self.m.ill_formed.push(format!("{at:?}: slot empty"));
                }
                self.futs.insert(
                    *fut,
                    Fut {
                        kind: FutKind::InSpan,
                        spans: o.into_iter().chain(i).collect(),
                        total: *polls,
                        calls: 0,
                        tag: tag.clone(),
                        eop: false,
                        pending_first: false,
                        toggled: false,
                        done: false,
                    },
                );
            }
            Op::Poll { fut } => {
                let Some(f) = self.futs.get(fut) else {
                    self.m.ill_formed.push(format!("{at:?}: no future {fut}"));
                    return;
                };
                if f.done {
                    self.m.ill_formed.push(format!("{at:?}: future {fut} polled after completion"));
                    return;
                }
                let (tag, eop, i, total) = (f.tag.clone(), f.eop, f.calls, f.total);
                self.futs.get_mut(fut).unwrap().calls += 1;
                self.with_fut_lines(actor, at, *fut, |b| {
                    if eop {
                        b.local_enter(actor, at, &format!("{tag}.eop"), &vec![]);
                        // several polls produce several records with this name: count them
                    }
                    b.script_call(actor, at, &tag, "p", i);
                    if eop {
                        b.pop_guard(actor, at);
                    }
                    i + 1 >= total
                });
            }
            Op::MkStream { fut, slot, items, pending_first, tag } => {
                let n = self.slots.remove(slot);
                self.futs.insert(
                    *fut,
                    Fut {
                        kind: FutKind::Stream,
                        spans: n.into_iter().collect(),
                        total: *items + 1,
                        calls: 0,
                        tag: tag.clone(),
                        eop: false,
                        pending_first: *pending_first,
                        toggled: false,
                        done: false,
                    },
                );
            }
            Op::PollNext { fut } => {
                let Some(f) = self.futs.get_mut(fut) else {
                    self.m.ill_formed.push(format!("{at:?}: no stream {fut}"));
                    return;
                };
                let tag = f.tag.clone();
                let i = f.calls;
                f.calls += 1;
                let finished;
                if f.pending_first && !f.toggled {
                    f.toggled = true;
                    f.total += 1;
                    finished = false;
                } else {
                    finished = i + 1 >= f.total;
                }
                self.with_fut_lines(actor, at, *fut, |b| {
                    b.script_call(actor, at, &tag, "n", i);
                    finished
                });
            }
            Op::MkSink { fut, slot, tag, pending_first, .. } => {
                let n = self.slots.remove(slot);
                self.futs.insert(
                    *fut,
                    Fut {
                        kind: FutKind::Sink,
                        spans: n.into_iter().collect(),
                        total: 0,
                        calls: 0,
                        tag: tag.clone(),
                        eop: false,
                        pending_first: *pending_first,
                        toggled: false,
                        done: false,
                    },
                );
            }
            Op::SinkReady { fut } | Op::SinkSend { fut } | Op::SinkFlush { fut } | Op::SinkClose { fut } => {
                let Some(f) = self.futs.get_mut(fut) else {
                    self.m.ill_formed.push(format!("{at:?}: no sink {fut}"));
                    return;
                };
                let tag = f.tag.clone();
                let i = f.calls;
                f.calls += 1;
                let what = match op {
                    Op::SinkReady { .. } => "r",
                    Op::SinkSend { .. } => "s",
                    Op::SinkFlush { .. } => "f",
                    _ => "c",
                };
                let mut finished = false;
                if let Op::SinkClose { .. } = op {
                    if f.pending_first && !f.toggled {
                        f.toggled = true;
                    } else {
                        finished = true;
                    }
                }
                self.with_fut_lines(actor, at, *fut, |b| {
                    b.script_call(actor, at, &tag, what, i);
                    finished
                });
            }
            Op::DropFut { fut } => {
                if let Some(f) = self.futs.remove(fut) {
                    for n in f.spans.iter().rev() {
                        self.finish_span(n, at);
                    }
                    let _ = f.kind == FutKind::Sink;
                }
            }
            Op::Reentrant { outer, inner } => {
                // the outer call creates its span / pseudo-span, then the closure runs, then the
                // properties are attached
                match &**outer {
                    Op::LocalEnter { .. } => {
                        self.apply(actor, idx, outer);
                        let recorded = matches!(self.guards[actor].last(), Some(G::Local { recorded: true, .. }));
                        if recorded {
                            for op in inner {
                                self.apply(actor, idx, op);
                            }
                        }
                    }
                    Op::Root { .. } => {
                        for op in inner {
                            self.apply(actor, idx, op);
                        }
                        self.apply(actor, idx, outer);
                    }
                    Op::Child { parents, .. } => {
                        let live = parents.iter().any(|p| self.span(*p).map_or(false, |s| !s.noop));
                        if live {
                            for op in inner {
                                self.apply(actor, idx, op);
                            }
                        }
                        self.apply(actor, idx, outer);
                    }
                    Op::AddProps { slot, .. } => {
                        let live = self.span(*slot).map_or(false, |s| !s.noop);
                        if live {
                            for op in inner {
                                self.apply(actor, idx, op);
                            }
                        }
                        self.apply(actor, idx, outer);
                    }
                    Op::LocalAddProps { .. } => {
                        let live = self.lines[actor].last().map_or(false, |l| l.sampled && l.lrecs.len() < LOCAL_LIMIT);
                        if live {
                            for op in inner {
                                self.apply(actor, idx, op);
                            }
                        }
                        self.apply(actor, idx, outer);
                    }
                    Op::AddEvent { .. } | Op::LocalAddEvent { .. } => {
                        for op in inner {
                            self.apply(actor, idx, op);
                        }
                        self.apply(actor, idx, outer);
                    }
                    other => self.m.ill_formed.push(format!("{at:?}: {} takes no closure", other.short())),
                }
                // closure counts of re-entrant ops are not judged individually
                self.m.closures.retain(|c| c.at != at);
            }
            Op::FillScopes { slot, leave } => {
                let tok = self.span(*slot).filter(|s| !s.noop).map(|s| s.issue());
                let target = SCOPE_LIMIT.saturating_sub(*leave).saturating_sub(self.lines[actor].len());
                if let Some(t) = tok {
                    for _ in 0..target {
                        self.lines[actor].push(Line {
                            token: Some(t.clone()),
                            sampled: t.iter().any(|i| i.sampled),
                            open: vec![],
                            lrecs: vec![],
                        });
                    }
                    self.fill_lines[actor] += target;
                }
            }
            Op::Unfill => {
                let n = self.fill_lines[actor];
                for _ in 0..n {
                    self.lines[actor].pop();
                }
                self.fill_lines[actor] = 0;
            }
            Op::FillLocalSpans { leave } => {
                let target = LOCAL_LIMIT.saturating_sub(*leave);
                for i in 0..target {
                    let order = self.next_order();
                    if let Some(line) = self.lines[actor].last_mut() {
                        if line.sampled && line.lrecs.len() < LOCAL_LIMIT {
                            let parent = line.open.last().cloned();
                            line.lrecs.push(LRec {
                                name: if i % 2 == 0 { "fill.a".into() } else { "fill.b".into() },
                                parent,
                                kind: LKind::Span,
                                props: vec![],
                                by: at,
                                actor,
                                order,
                                closed: true,
                                closed_by: Some(at),
                            });
                        }
                    }
                }
            }
            Op::Cycle | Op::Flush | Op::Signal(_) | Op::Wait(_) | Op::Fill { .. } | Op::BusyWait { .. } | Op::BuildEvent { .. } | Op::SetReporter | Op::ChurnScopes { .. } | Op::Warm | Op::RandomIds | Op::AtThreadExit { .. } => {}
            Op::RootRandom { slot, .. } => {
                // the trace id is not known to the model: nothing is defined for this trace
                let name = format!("noop@{}.{}.{}", actor, idx, self.next_order());
                let s = MSpan { name, items: vec![], is_root: false, noop: true, created: at, finished: None, cancelled: None, props: vec![] };
                self.new_span(*slot, s);
                self.m.undefined.push(format!("{at:?}: random trace id"));
            }
        }
    }
}

fn att_of(a: &LRec, submit: OpRef) -> Option<Att> {
    match &a.kind {
        LKind::Span => None,
        LKind::Event(p) => Some(Att {
            kind: AttKind::Event(p[0].0.clone(), p[1..].to_vec()),
            route: Route::Local(a.actor),
            by: a.by,
            submit,
            order: a.order,
        }),
        LKind::Props(p) => {
            // a multi-pair attachment is kept as its first pair plus the rest in order; callers
            // expand it
            Some(Att {
                kind: AttKind::Prop(
                    p.iter().map(|(k, _)| k.as_str()).collect::<Vec<_>>().join("\u{1}"),
                    p.iter().map(|(_, v)| v.as_str()).collect::<Vec<_>>().join("\u{1}"),
                ),
                route: Route::Local(a.actor),
                by: a.by,
                submit,
                order: a.order,
            })
        }
    }
}

/// Expands a (possibly multi-pair) property attachment into its pairs.
pub fn att_pairs(a: &Att) -> Vec<(String, String)> {
    match &a.kind {
        AttKind::Prop(k, v) => k.split('\u{1}').map(String::from).zip(v.split('\u{1}').map(String::from)).collect(),
        _ => vec![],
    }
}

pub fn build(program: &Program, ex: &Execution) -> Model {
    let n = program.actors.len();
    let mut b = Builder {
        program,
        m: Model::default(),
        slots: HashMap::new(),
        sets: HashMap::new(),
        futs: HashMap::new(),
        lines: vec![Vec::new(); n],
        guards: vec![Vec::new(); n],
        fill_lines: vec![0; n],
        order: 0,
        no_reporter: ex.no_reporter,
    };
    // executed order of operations = order of their OpEnd events; clocks; dropped commands
    let mut clocks: Vec<Vec<u32>> = vec![vec![0; n]; n];
    let mut flag_clock: HashMap<u32, Vec<u32>> = HashMap::new();
    let mut cur_op: Vec<Option<usize>> = vec![None; n];
    let mut begin_seq: HashMap<OpRef, u64> = HashMap::new();
    for ev in &ex.log {
        let Some(a) = ev.actor else { continue };
        match &ev.ev {
            Ev::OpBegin { op } => {
                cur_op[a] = Some(*op);
                begin_seq.insert((a, *op), ev.seq);
                clocks[a][a] += 1;
                // a wait joins the signaller's clock; the signal was necessarily logged earlier or
                // will be before the wait is granted, so join at the end instead (below)
            }
            Ev::Note(n) if n.starts_with("parked-at-exit:") => b.m.parked_at_exit = true,
            Ev::Dropped => {
                if let Some(op) = cur_op[a] {
                    *b.m.dropped_in.entry((a, op)).or_insert(0) += 1;
                }
            }
            Ev::Signal(f) => {
                let c = clocks[a].clone();
                let e = flag_clock.entry(*f).or_insert_with(|| vec![0; n]);
                for i in 0..n {
                    e[i] = e[i].max(c[i]);
                }
            }
            Ev::OpEnd { op } => {
                let at = (a, *op);
                let opref = b.program.actors[a].ops.get(*op);
                if let Some(Op::Wait(f)) = opref {
                    if let Some(fc) = flag_clock.get(f) {
                        for i in 0..n {
                            clocks[a][i] = clocks[a][i].max(fc[i]);
                        }
                    }
                }
                b.m.clocks.insert(at, clocks[a].clone());
                b.m.op_seq.insert(at, (begin_seq.get(&at).copied().unwrap_or(0), ev.seq));
                match opref {
                    Some(op) => {
                        let op = op.clone();
                        b.apply(a, at.1, &op);
                    }
                    None => {
                        // automatic release of leftover guards, innermost first
                        let fl = b.fill_lines[a];
                        for _ in 0..fl {
                            b.lines[a].pop();
                        }
                        b.fill_lines[a] = 0;
                        while !b.guards[a].is_empty() {
                            if let Some((lrecs, Some(items))) = b.pop_guard(a, at) {
                                { let uid = b.next_order(); b.emit_set(&lrecs, &items, at, at, uid, None); }
                            }
                        }
                    }
                }
                cur_op[a] = None;
            }
            _ => {}
        }
    }
    for (slot, name) in &b.slots {
        b.m.ill_formed.push(format!("span {name} (slot {slot}) never finished"));
    }
    if !b.futs.is_empty() {
        b.m.ill_formed.push("adapter never dropped".into());
    }
    let _ = ObsVal::Unit;
    b.m
}
