//! Bounded-exhaustive generator of well-scoped programs: depth-first over operation sequences,
//! limited by per-resource budgets. Every prefix, closed by releasing what is still open, is a
//! program.

use crate::program::*;

#[derive(Debug, Clone)]
pub struct TraceOpt {
    pub trace: u128,
    pub sampled: bool,
    pub remote_parent: u64,
}

#[derive(Debug, Clone)]
pub struct GenCfg {
    pub name: String,
    pub max_len: usize,
    pub max_spans: usize,
    pub traces: Vec<TraceOpt>,
    pub max_parents: usize,
    pub ordered_parents: bool,
    pub max_locals: usize,
    pub max_depth: usize,
    pub max_attach: usize,
    pub allow_noop: bool,
    pub allow_inert_local: bool,
    pub allow_lc: bool,
    pub max_sets: usize,
    pub allow_cancel: bool,
    pub cancel_non_root: bool,
    pub allow_child_local: bool,
    pub allow_scope: bool,
    pub actors: usize,
    pub max_switches: usize,
    /// observe the local context after every operation and the span context of every new span
    pub observe: bool,
    /// after every operation also create+finish a probe span under the local parent and add a
    /// local event (C10)
    pub probe: bool,
    pub finish_while_scoped: bool,
    pub creation_props: bool,
    pub handle_attach: bool,
    pub local_attach: bool,
    /// attachments by handle only on spans that are still open when attached (always true) and
    /// only while ... (kept for future use)
    pub to_records: bool,
    pub elapsed: bool,
    pub busy_wait_us: u64,
    /// roots may pick any unused trace option (else: the first unused one only)
    pub any_trace_order: bool,
    /// a child may name the same parent twice
    pub dup_parent: bool,
    /// operations that create a remote child root from an extracted context (C11)
    pub remote_children: bool,
    /// a local collector at the bottom of the guard stack may be collected while local spans
    /// recorded under it are still open (they are closed at the collection time)
    pub collect_open: bool,
}

impl GenCfg {
    pub fn base(name: &str) -> Self {
        GenCfg {
            name: name.into(),
            max_len: 5,
            max_spans: 2,
            traces: vec![TraceOpt { trace: 0xA1, sampled: true, remote_parent: 0 }],
            max_parents: 1,
            ordered_parents: false,
            max_locals: 0,
            max_depth: 0,
            max_attach: 0,
            allow_noop: false,
            allow_inert_local: false,
            allow_lc: false,
            max_sets: 0,
            allow_cancel: false,
            cancel_non_root: false,
            allow_child_local: false,
            allow_scope: false,
            actors: 1,
            max_switches: 0,
            observe: false,
            probe: false,
            finish_while_scoped: false,
            creation_props: false,
            handle_attach: false,
            local_attach: false,
            to_records: false,
            elapsed: false,
            busy_wait_us: 0,
            any_trace_order: false,
            dup_parent: false,
            remote_children: false,
            collect_open: false,
        }
    }
}

#[derive(Debug, Clone, PartialEq)]
enum GK {
    Scope(u32),
    Local,
    Lc,
}

#[derive(Debug, Clone)]
struct SpanInfo {
    slot: u32,
    live: bool,
    noop: bool,
    root: bool,
    cancelled: bool,
}

#[derive(Clone)]
struct St {
    ops: Vec<(usize, Op)>,
    spans: Vec<SpanInfo>,
    stacks: Vec<Vec<GK>>,
    used_traces: Vec<bool>,
    n_locals: usize,
    n_attach: usize,
    n_sets: usize,
    live_sets: Vec<u32>,
    switches: usize,
    actor: usize,
    len: usize,
    counter: usize,
    noop_made: bool,
}

impl St {
    fn fresh(&mut self, pfx: &str) -> String {
        self.counter += 1;
        format!("{pfx}{}", self.counter)
    }
}

fn subsets(items: &[u32], max: usize, ordered: bool, dup: bool) -> Vec<Vec<u32>> {
    let mut out = Vec::new();
    for &a in items {
        out.push(vec![a]);
    }
    if max >= 2 {
        for (i, &a) in items.iter().enumerate() {
            for &b in &items[i + 1..] {
                out.push(vec![a, b]);
                if ordered {
                    out.push(vec![b, a]);
                }
            }
        }
        // the same parent twice
        if dup {
            for &a in items {
                out.push(vec![a, a]);
            }
        }
    }
    if max >= 3 && items.len() >= 3 {
        if ordered {
            for &a in items {
                for &b in items {
                    for &c in items {
                        if a != b && b != c && a != c {
                            out.push(vec![a, b, c]);
                        }
                    }
                }
            }
        } else {
            out.push(items[..3].to_vec());
        }
    }
    out
}

pub struct Gen<'a> {
    pub cfg: &'a GenCfg,
    pub count: u64,
    pub limit: u64,
}

impl<'a> Gen<'a> {
    fn enabled(&self, s: &St) -> Vec<Vec<(usize, Op)>> {
        // each alternative is a small group of ops (the op plus its observations/probes)
        let c = self.cfg;
        let a = s.actor;
        let mut alts: Vec<Vec<(usize, Op)>> = Vec::new();
        let n_spans = s.spans.len();
        let live: Vec<u32> = s.spans.iter().filter(|x| x.live).map(|x| x.slot).collect();
        let depth = s.stacks[a].iter().filter(|g| **g != GK::Local).count();
        let mut st = s.clone();
        let mut push = |alts: &mut Vec<Vec<(usize, Op)>>, op: Op| alts.push(vec![(a, op)]);
        let cprops = |st: &mut St| -> Props {
            if c.creation_props {
                let v = st.fresh("cv");
                vec![("ck".to_string(), v)]
            } else {
                vec![]
            }
        };
        if n_spans < c.max_spans {
            for (ti, t) in c.traces.iter().enumerate() {
                if !s.used_traces[ti] && (c.any_trace_order || s.used_traces[..ti].iter().all(|u| *u)) {
                    let name = format!("s{}", n_spans);
                    let props = cprops(&mut st);
                    push(
                        &mut alts,
                        Op::Root {
                            slot: n_spans as u32,
                            name,
                            trace: U128(t.trace),
                            remote_parent: t.remote_parent,
                            sampled: t.sampled,
                            props,
                        },
                    );
                }
            }
            if !live.is_empty() {
                for ps in subsets(&live, c.max_parents, c.ordered_parents, c.dup_parent) {
                    let name = format!("s{}", n_spans);
                    let single = ps.len() == 1;
                    let props = cprops(&mut st);
                    push(&mut alts, Op::Child { slot: n_spans as u32, name, parents: ps, single, props });
                }
            }
            if c.allow_child_local && (depth > 0 || c.allow_inert_local) {
                let name = format!("s{}", n_spans);
                let props = cprops(&mut st);
                push(&mut alts, Op::ChildLocal { slot: n_spans as u32, name, props });
            }
            if c.allow_noop && !s.noop_made {
                push(&mut alts, Op::Noop { slot: n_spans as u32 });
            }
        }
        if c.allow_scope && depth < c.max_depth {
            for &sl in &live {
                push(&mut alts, Op::SetLocalParent { slot: sl });
            }
        }
        if s.n_locals < c.max_locals && (!s.stacks[a].is_empty() || c.allow_inert_local) {
            let props = cprops(&mut st);
            push(&mut alts, Op::LocalEnter { name: format!("l{}", s.n_locals), props });
        }
        if c.allow_lc && depth < c.max_depth && s.n_sets < c.max_sets {
            push(&mut alts, Op::LcStart);
        }
        if c.collect_open && s.stacks[a].len() > 1 && s.stacks[a][0] == GK::Lc && s.stacks[a][1..].iter().all(|g| *g == GK::Local) {
            push(&mut alts, Op::LcCollect { set: s.n_sets as u32 });
        }
        match s.stacks[a].last() {
            Some(GK::Lc) => {
                push(&mut alts, Op::LcCollect { set: s.n_sets as u32 });
                push(&mut alts, Op::Pop);
            }
            Some(_) => push(&mut alts, Op::Pop),
            None => {}
        }
        for &set in &s.live_sets {
            for &sl in &live {
                push(&mut alts, Op::PushChildSpans { set, slot: sl });
            }
            if c.to_records {
                push(&mut alts, Op::ToRecords { set, trace: U128(0xEE), span_id: 0x99 });
            }
        }
        if s.n_attach < c.max_attach {
            if c.handle_attach {
                for &sl in &live {
                    let v = st.fresh("hv");
                    push(&mut alts, Op::AddProps { slot: sl, props: vec![("hk".into(), v)] });
                    let e = st.fresh("he");
                    let ev = st.fresh("hev");
                    push(&mut alts, Op::AddEvent { slot: sl, name: e, props: vec![("hek".into(), ev)] });
                }
            }
            if c.local_attach && (!s.stacks[a].is_empty() || c.allow_inert_local) {
                let v = st.fresh("lv");
                push(&mut alts, Op::LocalAddProps { props: vec![("lk".into(), v)] });
                let e = st.fresh("le");
                let ev = st.fresh("lev");
                push(&mut alts, Op::LocalAddEvent { name: e, props: vec![("lek".into(), ev)] });
            }
        }
        if c.allow_cancel {
            for sp in s.spans.iter().filter(|x| x.live && !x.cancelled) {
                if sp.root || c.cancel_non_root {
                    push(&mut alts, Op::Cancel { slot: sp.slot });
                }
            }
        }
        for sp in s.spans.iter().filter(|x| x.live) {
            let scoped = s.stacks.iter().any(|stk| stk.contains(&GK::Scope(sp.slot)));
            if !scoped || c.finish_while_scoped {
                push(&mut alts, Op::Finish { slot: sp.slot });
            }
        }
        if c.remote_children && n_spans < c.max_spans {
            for w3c in [false, true] {
                for &sl in &live {
                    push(&mut alts, Op::RootFromSpan { slot: n_spans as u32, name: format!("s{}", n_spans), of: sl, w3c });
                }
                push(&mut alts, Op::RootFromLocal { slot: n_spans as u32, name: format!("s{}", n_spans), w3c });
            }
        }
        if c.elapsed {
            for &sl in &live {
                push(&mut alts, Op::Elapsed { slot: sl });
            }
        }
        if c.actors > 1 && s.switches < c.max_switches {
            // hand over to the other actor (lock-step)
            alts.push(vec![]);
        }
        alts
    }

    fn apply(&self, s: &mut St, group: &[(usize, Op)]) {
        let c = self.cfg;
        if group.is_empty() {
            let from = s.actor;
            let to = (s.actor + 1) % c.actors;
            let flag = 100 + s.switches as u32;
            s.ops.push((from, Op::Signal(flag)));
            s.ops.push((to, Op::Wait(flag)));
            s.actor = to;
            s.switches += 1;
            return;
        }
        for (a, op) in group {
            let a = *a;
            s.len += 1;
            s.counter += 64;
            if c.busy_wait_us > 0 {
                s.ops.push((a, Op::BusyWait { micros: c.busy_wait_us }));
            }
            s.ops.push((a, op.clone()));
            match op {
                Op::Root { slot, trace, remote_parent, .. } => {
                    // (two options may carry the same trace id: two requests continuing one trace)
                    if let Some(ti) = c.traces.iter().position(|t| t.trace == trace.0 && t.remote_parent == *remote_parent) {
                        s.used_traces[ti] = true;
                    }
                    s.spans.push(SpanInfo { slot: *slot, live: true, noop: false, root: true, cancelled: false });
                }
                Op::Child { slot, .. } | Op::ChildLocal { slot, .. } | Op::RootFromSpan { slot, .. } | Op::RootFromLocal { slot, .. } => {
                    s.spans.push(SpanInfo { slot: *slot, live: true, noop: false, root: false, cancelled: false })
                }
                Op::Noop { slot } => {
                    s.noop_made = true;
                    s.spans.push(SpanInfo { slot: *slot, live: true, noop: true, root: false, cancelled: false })
                }
                Op::SetLocalParent { slot } => s.stacks[a].push(GK::Scope(*slot)),
                Op::LocalEnter { .. } => {
                    s.n_locals += 1;
                    s.stacks[a].push(GK::Local);
                }
                Op::LcStart => s.stacks[a].push(GK::Lc),
                Op::Pop => {
                    s.stacks[a].pop();
                }
                Op::LcCollect { set } => {
                    // the collector may sit below still-open local spans
                    if let Some(pos) = s.stacks[a].iter().rposition(|g| *g == GK::Lc) {
                        s.stacks[a].remove(pos);
                    }
                    s.live_sets.push(*set);
                    s.n_sets += 1;
                }
                Op::AddProps { .. } | Op::AddEvent { .. } | Op::LocalAddProps { .. } | Op::LocalAddEvent { .. } => {
                    s.n_attach += 1
                }
                Op::Cancel { slot } => {
                    if let Some(sp) = s.spans.iter_mut().find(|x| x.slot == *slot) {
                        sp.cancelled = true;
                    }
                }
                Op::Finish { slot } => {
                    if let Some(sp) = s.spans.iter_mut().find(|x| x.slot == *slot) {
                        sp.live = false;
                    }
                }
                _ => {}
            }
            if c.observe {
                s.ops.push((a, Op::ObserveLocal));
                match op {
                    Op::Root { slot, .. }
                    | Op::Child { slot, .. }
                    | Op::ChildLocal { slot, .. }
                    | Op::Noop { slot }
                    | Op::RootFromSpan { slot, .. }
                    | Op::RootFromLocal { slot, .. } => {
                        s.ops.push((a, Op::ObserveSpan { slot: *slot }))
                    }
                    _ => {}
                }
            }
            if c.probe {
                // (a property first and last, so that properties of consecutive operations are
                // adjacent in the scope's queue with nothing but scope changes in between)
                let pv0 = s.fresh("pw");
                s.ops.push((a, Op::LocalAddProps { props: vec![("pk".into(), pv0)] }));
                let pslot = 1000 + s.counter as u32;
                let pn = s.fresh("probe");
                s.ops.push((a, Op::ChildLocal { slot: pslot, name: pn, props: vec![] }));
                s.ops.push((a, Op::Finish { slot: pslot }));
                let en = s.fresh("pe");
                s.ops.push((a, Op::LocalAddEvent { name: en, props: vec![] }));
                let pv = s.fresh("pv");
                s.ops.push((a, Op::LocalAddProps { props: vec![("pk".into(), pv)] }));
            }
        }
    }

    /// Close the program: every actor releases its guards (innermost first), then the last actor
    /// finishes the remaining spans, children before roots.
    fn close(&self, s: &St) -> Program {
        let c = self.cfg;
        let mut s = s.clone();
        let mut cur = s.actor;
        for step in 0..c.actors {
            let a = (s.actor + step) % c.actors;
            if s.stacks[a].is_empty() {
                continue;
            }
            if a != cur {
                let flag = 200 + step as u32;
                s.ops.push((cur, Op::Signal(flag)));
                s.ops.push((a, Op::Wait(flag)));
                cur = a;
            }
            while let Some(_) = s.stacks[a].pop() {
                s.ops.push((a, Op::Pop));
                if c.observe {
                    s.ops.push((a, Op::ObserveLocal));
                }
            }
        }
        for set in s.live_sets.drain(..) {
            s.ops.push((cur, Op::DropSet { set }));
        }
        let mut live: Vec<SpanInfo> = s.spans.iter().filter(|x| x.live).cloned().collect();
        live.reverse();
        for sp in live {
            s.ops.push((cur, Op::Finish { slot: sp.slot }));
        }
        // actors that are done wait for the very end, so that their thread exit is ordered after
        // everything the program does (lock-step)
        let used: Vec<usize> = (0..c.actors).filter(|a| s.ops.iter().any(|(x, _)| x == a)).collect();
        if used.len() > 1 {
            for &a in &used {
                if a != cur {
                    s.ops.push((a, Op::Wait(999)));
                }
            }
            s.ops.push((cur, Op::Signal(999)));
        }
        let mut p = Program::new(format!("{}#{}", c.name, self.count));
        for a in 0..c.actors {
            let ops: Vec<Op> = s.ops.iter().filter(|(x, _)| *x == a).map(|(_, o)| o.clone()).collect();
            if a == 0 || !ops.is_empty() {
                p = p.worker(if a == 0 { "A" } else { "B" }, ops);
            }
        }
        p
    }

    fn dfs(&mut self, s: &St, visit: &mut dyn FnMut(Program) -> bool) -> bool {
        if self.count >= self.limit {
            return false;
        }
        if s.len > 0 {
            self.count += 1;
            if !visit(self.close(s)) {
                return false;
            }
        }
        if s.len >= self.cfg.max_len {
            return true;
        }
        for g in self.enabled(s) {
            let mut n = s.clone();
            self.apply(&mut n, &g);
            if g.is_empty() && self.enabled(&n).iter().all(|x| x.is_empty()) {
                continue;
            }
            if !self.dfs(&n, visit) {
                return false;
            }
        }
        true
    }
}

/// Enumerates all programs of the configuration (up to `limit`). Returns the number generated.
pub fn generate(cfg: &GenCfg, limit: u64, visit: &mut dyn FnMut(Program) -> bool) -> u64 {
    let s = St {
        ops: Vec::new(),
        spans: Vec::new(),
        stacks: vec![Vec::new(); cfg.actors],
        used_traces: vec![false; cfg.traces.len()],
        n_locals: 0,
        n_attach: 0,
        n_sets: 0,
        live_sets: Vec::new(),
        switches: 0,
        actor: 0,
        len: 0,
        counter: 0,
        noop_made: false,
    };
    let mut g = Gen { cfg, count: 0, limit };
    g.dfs(&s, visit);
    g.count
}

fn slot_roles(op: &Op) -> (Option<u32>, Vec<u32>, Option<u32>) {
    // (creates, uses, finishes)
    match op {
        Op::Root { slot, .. } | Op::ChildLocal { slot, .. } | Op::Noop { slot } | Op::RootFromLocal { slot, .. } => (Some(*slot), vec![], None),
        Op::Child { slot, parents, .. } => (Some(*slot), parents.clone(), None),
        Op::RootFromSpan { slot, of, .. } => (Some(*slot), vec![*of], None),
        Op::AddProps { slot, .. }
        | Op::AddEvent { slot, .. }
        | Op::Cancel { slot }
        | Op::ObserveSpan { slot }
        | Op::Elapsed { slot }
        | Op::SetLocalParent { slot }
        | Op::PushChildSpans { slot, .. } => (None, vec![*slot], None),
        Op::Finish { slot } => (None, vec![], Some(*slot)),
        _ => (None, vec![], None),
    }
}

/// Turns a sequential program into concurrent two-thread variants: every subset of the operations
/// that need no thread-local state (child creation with explicit parents, attachments by handle,
/// cancel, finish) moves to a second thread. Hand-offs (signal/wait) are inserted only where the
/// program needs them to stay well-formed: a span is used after it was created and finished after
/// its last use. Everything else is left to the scheduler.
pub fn concurrentize(seq: &Program, max_moved: usize) -> Vec<Program> {
    let ops: Vec<Op> = seq.actors[0].ops.clone();
    let movable: Vec<usize> = ops
        .iter()
        .enumerate()
        .filter(|(_, o)| matches!(o, Op::Child { .. } | Op::AddProps { .. } | Op::AddEvent { .. } | Op::Cancel { .. } | Op::Finish { .. }))
        .map(|(i, _)| i)
        .collect();
    let mut out = Vec::new();
    let n = movable.len().min(12);
    for mask in 1u32..(1u32 << n) {
        if mask.count_ones() as usize > max_moved {
            continue;
        }
        let on_b: Vec<bool> = (0..ops.len()).map(|i| movable.iter().position(|m| *m == i).map_or(false, |k| k < n && mask & (1 << k) != 0)).collect();
        // cross-thread dependencies in program order
        let mut lists: [Vec<Op>; 2] = [vec![Op::Warm], vec![Op::Warm]];
        let mut flag = 400u32;
        let mut signals_after: Vec<Vec<u32>> = vec![Vec::new(); ops.len()];
        let mut waits_before: Vec<Vec<u32>> = vec![Vec::new(); ops.len()];
        for j in 0..ops.len() {
            let (_, uses_j, fin_j) = slot_roles(&ops[j]);
            let mut deps: Vec<usize> = Vec::new();
            for s in uses_j.iter().chain(fin_j.iter()) {
                // creation of s
                if let Some(i) = (0..j).rev().find(|&i| slot_roles(&ops[i]).0 == Some(*s)) {
                    deps.push(i);
                }
            }
            if let Some(s) = fin_j {
                // every earlier use of s
                for i in 0..j {
                    if slot_roles(&ops[i]).1.contains(&s) {
                        deps.push(i);
                    }
                }
            }
            deps.sort();
            deps.dedup();
            // only the latest dependency on the other thread is needed (program order does the rest)
            if let Some(&i) = deps.iter().filter(|&&i| on_b[i] != on_b[j]).max() {
                signals_after[i].push(flag);
                waits_before[j].push(flag);
                flag += 1;
            }
        }
        for (i, op) in ops.iter().enumerate() {
            let a = on_b[i] as usize;
            for f in &waits_before[i] {
                lists[a].push(Op::Wait(*f));
            }
            lists[a].push(op.clone());
            for f in &signals_after[i] {
                lists[a].push(Op::Signal(*f));
            }
        }
        let [la, lb] = lists;
        out.push(Program::new(format!("{}/conc{mask}", seq.name)).worker("A", la).worker("B", lb));
    }
    out
}
