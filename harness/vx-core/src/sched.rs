//! Controlled scheduler: real OS threads serialised by a baton. Exactly one of {controller, one
//! actor} runs at any time. Actors give the baton back at *scheduling points*: the fastrace hook
//! points that precede an inter-thread interaction, and a few harness-level points (start, wait,
//! flush, exit). The controller decides who runs next.

use std::cell::Cell;
use std::collections::HashSet;
use std::sync::Arc;
use std::sync::Condvar;
use std::sync::Mutex;
use std::sync::MutexGuard;
use std::sync::OnceLock;
use std::time::Duration;

use fastrace::collector::SpanRecord;
use fastrace::verif::CommandKind;
use fastrace::verif::Point;
use serde::Deserialize;
use serde::Serialize;

pub const MAX_ACTORS: usize = 8;

thread_local! {
    static ME: Cell<Option<usize>> = const { Cell::new(None) };
}

pub fn me() -> Option<usize> {
    ME.try_with(|m| m.get()).ok().flatten()
}

/// What an actor that does not hold the baton is about to do.
#[derive(Debug, Clone, PartialEq, Eq, Hash, Serialize, Deserialize)]
pub enum Pending {
    Start,
    RingPush { replay: bool },
    RegisterReceiver,
    CycleLock,
    DrainReceiver { index: usize },
    BeforePop,
    RecvEmpty,
    Wait(u32),
    Flush,
    /// a collector actor is inside `Reporter::report` (still holding the collector's locks)
    Report,
    Exit,
}

impl Pending {
    pub fn tag(&self) -> &'static str {
        match self {
            Pending::Start => "start",
            Pending::RingPush { replay: false } => "push",
            Pending::RingPush { replay: true } => "push-replay",
            Pending::RegisterReceiver => "register",
            Pending::CycleLock => "cycle-lock",
            Pending::DrainReceiver { .. } => "drain-rx",
            Pending::BeforePop => "pop",
            Pending::RecvEmpty => "empty?abandoned",
            Pending::Wait(_) => "wait",
            Pending::Flush => "flush",
            Pending::Report => "in-report",
            Pending::Exit => "exit",
        }
    }
}

#[derive(Debug, Clone, Serialize, Deserialize, PartialEq)]
pub enum Ev {
    /// An actor was granted the baton at this point and performs the step.
    Step { pending: Pending },
    SendCommand { kind: Kind, collect_ids: Vec<usize>, force: bool },
    RingPushed { ok: bool, replay: bool },
    Parked,
    Dropped,
    DrainBegin,
    Drained { kind: Kind, collect_ids: Vec<usize> },
    ReceiverClosed { index: usize },
    DrainEnd,
    CycleEnd { records: Option<usize> },
    Report { batch: usize, records: usize },
    OpBegin { op: usize },
    OpEnd { op: usize },
    Signal(u32),
    ActorDone,
    Joined { actor: usize },
    Note(String),
}

#[derive(Debug, Clone, Copy, Serialize, Deserialize, PartialEq, Eq, Hash)]
pub enum Kind {
    Start,
    Drop,
    Commit,
    Submit,
}

impl From<CommandKind> for Kind {
    fn from(k: CommandKind) -> Self {
        match k {
            CommandKind::Start => Kind::Start,
            CommandKind::Drop => Kind::Drop,
            CommandKind::Commit => Kind::Commit,
            CommandKind::Submit => Kind::Submit,
        }
    }
}

#[derive(Debug, Clone, Serialize, Deserialize)]
pub struct LogEv {
    pub seq: u64,
    /// `None`: a thread that is not an actor (the flush helper, the controller).
    pub actor: Option<usize>,
    pub ev: Ev,
}

pub struct Batch {
    pub seq: u64,
    pub actor: Option<usize>,
    pub records: Vec<SpanRecord>,
}

#[derive(Default)]
pub struct ActorState {
    pub pending: Option<Pending>,
    pub finished: bool,
    pub joined: bool,
    /// Remaining `BeforePop` points at which this actor yields.
    pub pop_budget: u32,
    /// Collector actor whose cycles are atomic (yields at `CycleLock` only).
    pub atomic_cycles: bool,
    /// While set the actor neither yields nor logs at ring pushes (bulk fill).
    pub bulk: bool,
    pub bulk_pushes: u64,
    pub pc: usize,
    pub steps: u64,
    /// ring pushes accepted so far by this actor's queue (for the abstract state)
    pub pushed: u64,
    /// the actor is inside a call that may wait for one of the collector's mutexes without passing
    /// a scheduling point (set_reporter)
    pub blocking_call: bool,
    /// the controller took the baton back while the actor was waiting inside such a call; the
    /// actor rejoins the schedule at its next scheduling point
    pub detached: bool,
}

pub struct World {
    pub active: bool,
    pub current: Option<usize>,
    pub actors: Vec<ActorState>,
    pub log: Vec<LogEv>,
    pub seq: u64,
    pub flags: HashSet<u32>,
    pub cycle_in_progress: bool,
    pub drain_in_progress: bool,
    pub reports: Vec<Batch>,
    pub total_reports: u64,
    pub drained: u64,
    /// the reporter itself traces from inside `report()` (programs named "...+rt")
    pub reporter_traces: bool,
    /// receivers that were already registered when the execution began (leftovers of earlier
    /// executions in this process): draining them is not a scheduling point
    pub baseline_receivers: usize,
    pub draining_index: usize,
}

impl World {
    fn new() -> Self {
        World {
            active: false,
            current: None,
            actors: Vec::new(),
            log: Vec::new(),
            seq: 0,
            flags: HashSet::new(),
            cycle_in_progress: false,
            drain_in_progress: false,
            reports: Vec::new(),
            total_reports: 0,
            drained: 0,
            reporter_traces: false,
            baseline_receivers: 0,
            draining_index: 0,
        }
    }

    pub fn push_log(&mut self, actor: Option<usize>, ev: Ev) {
        self.seq += 1;
        let seq = self.seq;
        self.log.push(LogEv { seq, actor, ev });
    }

    pub fn enabled(&self, actor: usize) -> bool {
        let a = &self.actors[actor];
        if a.finished {
            return false;
        }
        match &a.pending {
            None => false,
            Some(Pending::Wait(f)) => self.flags.contains(f),
            // Mutexes are modelled as enabledness, and the model asks the real locks: a thread
            // that would block on a mutex held by a paused actor is simply not scheduled. (Using
            // the real lock state rather than "a drain is in progress" keeps the model faithful to
            // whatever the code actually locks, and for how long.)
            Some(Pending::RegisterReceiver) => !fastrace::verif::registry_locked(),
            Some(Pending::CycleLock) | Some(Pending::Flush) => !fastrace::verif::collector_locked(),
            Some(_) => true,
        }
    }
}

pub struct Sched {
    world: Mutex<World>,
    ctl_cv: Condvar,
    cvs: Vec<Condvar>,
}

static SCHED: OnceLock<Arc<Sched>> = OnceLock::new();

pub fn sched() -> &'static Arc<Sched> {
    SCHED.get_or_init(|| {
        let s = Arc::new(Sched {
            world: Mutex::new(World::new()),
            ctl_cv: Condvar::new(),
            cvs: (0..MAX_ACTORS).map(|_| Condvar::new()).collect(),
        });
        fastrace::verif::set_hook(Arc::new(hook));
        s
    })
}

#[derive(Debug)]
pub struct Hang;

impl Sched {
    pub fn world(&self) -> MutexGuard<'_, World> {
        self.world.lock().unwrap_or_else(|e| e.into_inner())
    }

    /// Actor side: give the baton back, announce the next step, wait to be granted it.
    pub fn yield_at(&self, actor: usize, pending: Pending) {
        let mut w = self.world();
        w.actors[actor].pending = Some(pending.clone());
        if w.actors[actor].detached {
            // the baton was taken back while this actor waited for a mutex: it may be with somebody else
            w.actors[actor].detached = false;
        } else {
            debug_assert_eq!(w.current, Some(actor));
            w.current = None;
        }
        self.ctl_cv.notify_one();
        while w.current != Some(actor) {
            w = self.cvs[actor].wait(w).unwrap_or_else(|e| e.into_inner());
        }
        w.actors[actor].pending = None;
        w.actors[actor].steps += 1;
        match pending {
            Pending::CycleLock => w.cycle_in_progress = true,
            _ => {}
        }
        w.push_log(Some(actor), Ev::Step { pending });
    }

    /// Actor side: first wait (the actor does not hold the baton yet).
    pub fn wait_start(&self, actor: usize) {
        let mut w = self.world();
        while w.current != Some(actor) {
            w = self.cvs[actor].wait(w).unwrap_or_else(|e| e.into_inner());
        }
        w.actors[actor].pending = None;
        w.push_log(Some(actor), Ev::Step { pending: Pending::Start });
    }

    /// Actor side: the actor is done; its thread returns right after this.
    pub fn finish(&self, actor: usize) {
        let mut w = self.world();
        w.actors[actor].finished = true;
        w.actors[actor].pending = None;
        w.push_log(Some(actor), Ev::ActorDone);
        if w.actors[actor].detached {
            w.actors[actor].detached = false;
        } else {
            w.current = None;
        }
        self.ctl_cv.notify_one();
    }

    /// Controller side: wait until no actor holds the baton.
    pub fn wait_for_control(&self, timeout: Duration) -> Result<MutexGuard<'_, World>, Hang> {
        let mut w = self.world();
        let deadline = std::time::Instant::now() + timeout;
        while w.current.is_some() {
            let now = std::time::Instant::now();
            if now >= deadline {
                return Err(Hang);
            }
            let (g, _) = self
                .ctl_cv
                .wait_timeout(w, deadline - now)
                .unwrap_or_else(|e| e.into_inner());
            w = g;
        }
        Ok(w)
    }

    /// Controller side: the actor holding the baton is inside a call that may block on a mutex of
    /// the collector and such a mutex is held: take the baton back so that whoever holds the mutex
    /// can be scheduled. (A real wait on a real lock: nothing is assumed about which locks the call
    /// takes or in which order.)
    pub fn try_detach_current(&self) -> bool {
        let mut w = self.world();
        let Some(a) = w.current else { return false };
        if w.actors[a].blocking_call && (fastrace::verif::collector_locked() || fastrace::verif::registry_locked()) {
            w.actors[a].detached = true;
            w.current = None;
            true
        } else {
            false
        }
    }

    /// Controller side: wait (briefly) for an actor to change the world.
    pub fn wait_change<'a>(&'a self, w: MutexGuard<'a, World>, d: Duration) -> MutexGuard<'a, World> {
        self.ctl_cv.wait_timeout(w, d).unwrap_or_else(|e| e.into_inner()).0
    }

    /// Controller side: hand the baton to `actor`.
    pub fn grant(&self, mut w: MutexGuard<'_, World>, actor: usize) {
        w.current = Some(actor);
        drop(w);
        self.cvs[actor].notify_one();
    }
}

pub fn set_me(id: Option<usize>) {
    let _ = ME.try_with(|m| m.set(id));
}

/// All collector cycles are driven by the harness: collector threads started by `set_reporter` are
/// kept at the point where they would begin a cycle of their own.
pub static PARK_BACKGROUND: std::sync::atomic::AtomicBool = std::sync::atomic::AtomicBool::new(false);

fn hook(p: &Point) {
    if matches!(p, Point::BackgroundCycle) {
        while PARK_BACKGROUND.load(std::sync::atomic::Ordering::Relaxed) {
            std::thread::park_timeout(Duration::from_secs(3600));
        }
        return;
    }
    let s = sched();
    let Some(me) = me() else {
        // Not an actor: the flush helper thread, the background collector, or the controller.
        // These run atomically; keep a log of what they do while an execution is active.
        let mut w = s.world();
        if !w.active {
            return;
        }
        match p {
            Point::Drained { kind, collect_ids } => {
                w.drained += 1;
                w.push_log(None, Ev::Drained { kind: (*kind).into(), collect_ids: collect_ids.clone() })
            }
            Point::DrainBegin => w.push_log(None, Ev::DrainBegin),
            Point::DrainEnd => w.push_log(None, Ev::DrainEnd),
            Point::ReceiverClosed { index } => w.push_log(None, Ev::ReceiverClosed { index: *index }),
            Point::CycleEnd { records } => w.push_log(None, Ev::CycleEnd { records: *records }),
            Point::SendCommand { kind, collect_ids, force } => w.push_log(
                None,
                Ev::SendCommand { kind: (*kind).into(), collect_ids: collect_ids.clone(), force: *force },
            ),
            Point::RingPushed { ok, replay } => w.push_log(None, Ev::RingPushed { ok: *ok, replay: *replay }),
            Point::Parked => w.push_log(None, Ev::Parked),
            Point::Dropped => w.push_log(None, Ev::Dropped),
            _ => {}
        }
        return;
    };
    match p {
        Point::RingPush { replay } => {
            let bulk = {
                let mut w = s.world();
                let a = &mut w.actors[me];
                if a.bulk {
                    a.bulk_pushes += 1;
                }
                a.bulk
            };
            if !bulk {
                s.yield_at(me, Pending::RingPush { replay: *replay });
            }
        }
        Point::RegisterReceiver => s.yield_at(me, Pending::RegisterReceiver),
        Point::CycleLock => s.yield_at(me, Pending::CycleLock),
        Point::DrainReceiver { index } => {
            let atomic = {
                let mut w = s.world();
                w.draining_index = *index;
                w.actors[me].atomic_cycles || *index < w.baseline_receivers
            };
            if !atomic {
                s.yield_at(me, Pending::DrainReceiver { index: *index });
            }
        }
        Point::RecvEmptyBeforeAbandonCheck => {
            let atomic = {
                let w = s.world();
                w.actors[me].atomic_cycles || w.draining_index < w.baseline_receivers
            };
            if !atomic {
                s.yield_at(me, Pending::RecvEmpty);
            }
        }
        Point::BeforePop => {
            let y = {
                let mut w = s.world();
                let a = &mut w.actors[me];
                if !a.atomic_cycles && a.pop_budget > 0 {
                    a.pop_budget -= 1;
                    true
                } else {
                    false
                }
            };
            if y {
                s.yield_at(me, Pending::BeforePop);
            }
        }
        Point::DrainBegin => {
            let mut w = s.world();
            w.drain_in_progress = true;
            w.push_log(Some(me), Ev::DrainBegin);
        }
        Point::DrainEnd => {
            let mut w = s.world();
            w.drain_in_progress = false;
            w.push_log(Some(me), Ev::DrainEnd);
        }
        Point::CycleEnd { records } => {
            // (the cycle still holds the collector until `report()` has returned; the flag is
            // cleared by the interpreter when the cycle call returns)
            s.world().push_log(Some(me), Ev::CycleEnd { records: *records });
        }
        Point::Drained { kind, collect_ids } => {
            let mut w = s.world();
            w.drained += 1;
            w.push_log(Some(me), Ev::Drained { kind: (*kind).into(), collect_ids: collect_ids.clone() });
        }
        Point::ReceiverClosed { index } => {
            s.world().push_log(Some(me), Ev::ReceiverClosed { index: *index });
        }
        Point::SendCommand { kind, collect_ids, force } => {
            let mut w = s.world();
            if !w.actors[me].bulk {
                w.push_log(
                    Some(me),
                    Ev::SendCommand { kind: (*kind).into(), collect_ids: collect_ids.clone(), force: *force },
                );
            }
        }
        Point::RingPushed { ok, replay } => {
            let mut w = s.world();
            if *ok {
                w.actors[me].pushed += 1;
            }
            if !w.actors[me].bulk {
                w.push_log(Some(me), Ev::RingPushed { ok: *ok, replay: *replay });
            }
        }
        Point::Parked => {
            let mut w = s.world();
            if !w.actors[me].bulk {
                w.push_log(Some(me), Ev::Parked);
            }
        }
        Point::Dropped => {
            let mut w = s.world();
            if !w.actors[me].bulk {
                w.push_log(Some(me), Ev::Dropped);
            }
        }
        // (handled at the top: collector threads are not actors)
        Point::BackgroundCycle => {}
    }
}

/// The reporter installed once per process. Records every `report()` call of an active execution.
pub struct CaptureReporter;

impl fastrace::collector::Reporter for CaptureReporter {
    fn report(&mut self, spans: Vec<SpanRecord>) {
        let s = sched();
        let actor = me();
        // A reporter takes time: other threads run while a (non-atomic) collector actor is in here.
        if let Some(a) = actor {
            let (yields, traces) = {
                let w = s.world();
                (w.active && !w.actors[a].atomic_cycles, w.active && w.reporter_traces)
            };
            if yields {
                s.yield_at(a, Pending::Report);
            }
            if traces {
                // a reporter that is itself instrumented
                let sp = fastrace::Span::root("reporter-span", fastrace::collector::SpanContext::new(fastrace::collector::TraceId(0xEEE), fastrace::collector::SpanId(0)));
                drop(sp);
            }
        }
        let mut w = s.world();
        w.total_reports += 1;
        if !w.active {
            return;
        }
        let batch = w.reports.len();
        w.push_log(actor, Ev::Report { batch, records: spans.len() });
        let seq = w.seq;
        w.reports.push(Batch { seq, actor, records: spans });
    }
}
