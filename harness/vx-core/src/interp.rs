//! Interprets a `Program` against the real fastrace library, one OS thread per actor.

use std::collections::HashMap;
use std::future::Future;
use std::panic::catch_unwind;
use std::panic::AssertUnwindSafe;
use std::pin::Pin;
use std::sync::Arc;
use std::sync::Mutex;
use std::task::Context;
use std::task::Poll;
use std::task::RawWaker;
use std::task::RawWakerVTable;
use std::task::Waker;

use fastrace::collector::SpanContext;
use fastrace::collector::SpanId;
use fastrace::collector::SpanRecord;
use fastrace::collector::TraceId;
use fastrace::future::FutureExt;
use fastrace::local::LocalCollector;
use fastrace::local::LocalParentGuard;
use fastrace::local::LocalSpan;
use fastrace::local::LocalSpans;
use fastrace::Event;
use fastrace::Span;
use futures_core::Stream;
use futures_sink::Sink;
use serde::Deserialize;
use serde::Serialize;

use crate::program::*;
use crate::sched::sched;
use crate::sched::Ev;
use crate::sched::Pending;

#[derive(Debug, Clone, PartialEq, Serialize, Deserialize)]
pub struct Ctx {
    pub trace: U128,
    pub span: u64,
    pub sampled: bool,
}

#[derive(Debug, Clone, PartialEq, Serialize, Deserialize)]
pub struct Rec {
    pub trace: U128,
    pub id: u64,
    pub parent: u64,
    pub begin: u64,
    pub dur: u64,
    pub name: String,
    pub props: Props,
    pub events: Vec<(String, u64, Props)>,
}

impl Rec {
    pub fn from_record(r: &SpanRecord) -> Rec {
        Rec {
            trace: U128(r.trace_id.0),
            id: r.span_id.0,
            parent: r.parent_id.0,
            begin: r.begin_time_unix_ns,
            dur: r.duration_ns,
            name: r.name.to_string(),
            props: r.properties.iter().map(|(k, v)| (k.to_string(), v.to_string())).collect(),
            events: r
                .events
                .iter()
                .map(|e| {
                    (
                        e.name.to_string(),
                        e.timestamp_unix_ns,
                        e.properties.iter().map(|(k, v)| (k.to_string(), v.to_string())).collect(),
                    )
                })
                .collect(),
        }
    }
}

#[derive(Debug, Clone, PartialEq, Serialize, Deserialize)]
pub enum ObsVal {
    Unit,
    Panic(String),
    Ctx(Option<Ctx>),
    ElapsedNs(Option<u64>),
    Records(Vec<Rec>),
    /// poll result: Some(value) when ready
    Ready(Option<u32>),
    Count(u64),
    IllFormed(String),
}

/// What one operation (or one poll of a scripted future) observed.
#[derive(Debug, Clone, Serialize, Deserialize)]
pub struct Obs {
    pub actor: usize,
    /// index into the actor's op list; `ops.len()` for the automatic release of leftover guards
    pub op: usize,
    /// sub-observation label ("" for the op's own result; "poll:<tag>.p<i>" for a scripted poll…)
    pub label: String,
    pub seq_begin: u64,
    pub seq_end: u64,
    pub unix_begin_ns: u64,
    pub unix_end_ns: u64,
    pub mono_begin_ns: u64,
    pub mono_end_ns: u64,
    pub val: ObsVal,
    /// number of closure invocations during the op (property closures)
    pub closures: u32,
}

#[allow(dead_code)]
enum Guard {
    Parent(LocalParentGuard),
    Local(LocalSpan),
    Collector(LocalCollector),
}

pub enum FutBox {
    Fut(Pin<Box<dyn Future<Output = u32> + Send>>),
    Stream(Pin<Box<dyn Stream<Item = u32> + Send>>),
    Sink(Pin<Box<dyn Sink<u32, Error = ()> + Send>>),
}

#[derive(Default)]
pub struct Tables {
    pub spans: Mutex<HashMap<u32, Arc<Span>>>,
    pub sets: Mutex<HashMap<u32, LocalSpans>>,
    pub futs: Mutex<HashMap<u32, FutBox>>,
    pub obs: Mutex<Vec<Obs>>,
    pub t0: Option<std::time::Instant>,
    /// (programs named "...-lazy...") closures of re-entrant operations return a lazy iterator: the
    /// inner operations run when the library consumes it, not when it calls the closure
    pub lazy_closures: bool,
}

fn lock<T>(m: &Mutex<T>) -> std::sync::MutexGuard<'_, T> {
    m.lock().unwrap_or_else(|e| e.into_inner())
}

pub fn unix_now_ns() -> u64 {
    std::time::SystemTime::now().duration_since(std::time::UNIX_EPOCH).unwrap().as_nanos() as u64
}

struct Local {
    actor: usize,
    guards: Vec<Guard>,
    fill_guards: Vec<Guard>,
    closures: u32,
    cur_op: usize,
    /// events built ahead of being recorded (`Op::BuildEvent`)
    built_events: HashMap<String, Event>,
}

fn to_cow(p: &Props) -> Vec<(String, String)> {
    p.clone()
}

fn ctx_of(c: Option<SpanContext>) -> Option<Ctx> {
    c.map(|c| Ctx { trace: U128(c.trace_id.0), span: c.span_id.0, sampled: c.sampled })
}

fn get_span(t: &Tables, slot: u32) -> Result<Arc<Span>, String> {
    lock(&t.spans).get(&slot).cloned().ok_or_else(|| format!("no span in slot {slot}"))
}

fn put_span(t: &Tables, slot: u32, s: Span) -> Result<(), String> {
    let old = lock(&t.spans).insert(slot, Arc::new(s));
    if old.is_some() {
        // The old span is dropped here, by the running actor; still, programs should not do this.
        return Err(format!("slot {slot} overwritten"));
    }
    Ok(())
}

fn noop_waker() -> Waker {
    fn clone(_: *const ()) -> RawWaker {
        RawWaker::new(std::ptr::null(), &VTABLE)
    }
    fn noop(_: *const ()) {}
    static VTABLE: RawWakerVTable = RawWakerVTable::new(clone, noop, noop, noop);
    unsafe { Waker::from_raw(RawWaker::new(std::ptr::null(), &VTABLE)) }
}

/// A scripted leaf future / stream / sink. Every call records one local span `<tag>.p<i>` with a
/// property, a local event, and observes the local context from inside the call.
pub struct Script {
    tag: String,
    calls: u32,
    /// number of calls after which a future is ready / a stream ends
    total: u32,
    pending_first: bool,
    toggled: bool,
    /// (sinks) poll_ready, start_send and poll_flush return Err
    failing: bool,
    tables: Arc<Tables>,
}

impl Script {
    fn call(&mut self, what: &str) -> u32 {
        let i = self.calls;
        self.calls += 1;
        let name = format!("{}.{}{}", self.tag, what, i);
        let before = ctx_of(SpanContext::current_local_parent());
        let g = LocalSpan::enter_with_local_parent(name.clone());
        LocalSpan::add_properties(|| [(format!("{name}.k"), format!("{name}.v"))]);
        LocalSpan::add_event(Event::new(format!("{name}.e")));
        drop(g);
        record_sub(&self.tables, format!("inside:{name}"), ObsVal::Ctx(before));
        i
    }
}

fn record_sub(t: &Tables, label: String, val: ObsVal) {
    let actor = crate::sched::me().unwrap_or(usize::MAX);
    let seq = sched().world().seq;
    lock(&t.obs).push(Obs {
        actor,
        op: usize::MAX,
        label,
        seq_begin: seq,
        seq_end: seq,
        unix_begin_ns: 0,
        unix_end_ns: 0,
        mono_begin_ns: 0,
        mono_end_ns: 0,
        val,
        closures: 0,
    });
}

impl Future for Script {
    type Output = u32;
    fn poll(mut self: Pin<&mut Self>, _cx: &mut Context<'_>) -> Poll<u32> {
        let i = self.call("p");
        if i + 1 >= self.total {
            Poll::Ready(i)
        } else {
            Poll::Pending
        }
    }
}

impl Stream for Script {
    type Item = u32;
    fn poll_next(mut self: Pin<&mut Self>, _cx: &mut Context<'_>) -> Poll<Option<u32>> {
        if self.pending_first && !self.toggled {
            self.toggled = true;
            self.call("n");
            self.total += 1;
            return Poll::Pending;
        }
        let i = self.call("n");
        if i + 1 >= self.total {
            Poll::Ready(None)
        } else {
            Poll::Ready(Some(i))
        }
    }

    // an exact hint: the upper bound is 0 when only the terminating `None` is left
    fn size_hint(&self) -> (usize, Option<usize>) {
        if self.pending_first && !self.toggled {
            (self.remaining_items(), None)
        } else {
            (self.remaining_items(), Some(self.remaining_items()))
        }
    }
}

impl Script {
    /// Items still to come (the scripted stream knows exactly).
    fn remaining_items(&self) -> usize {
        // `total` calls in all; the last one returns None
        (self.total.saturating_sub(self.calls + 1)) as usize
    }
}

impl Sink<u32> for Script {
    type Error = ();
    fn poll_ready(mut self: Pin<&mut Self>, _cx: &mut Context<'_>) -> Poll<Result<(), ()>> {
        self.call("r");
        Poll::Ready(if self.failing { Err(()) } else { Ok(()) })
    }
    fn start_send(mut self: Pin<&mut Self>, _item: u32) -> Result<(), ()> {
        self.call("s");
        if self.failing {
            Err(())
        } else {
            Ok(())
        }
    }
    fn poll_flush(mut self: Pin<&mut Self>, _cx: &mut Context<'_>) -> Poll<Result<(), ()>> {
        self.call("f");
        Poll::Ready(if self.failing { Err(()) } else { Ok(()) })
    }
    fn poll_close(mut self: Pin<&mut Self>, _cx: &mut Context<'_>) -> Poll<Result<(), ()>> {
        self.call("c");
        if self.pending_first && !self.toggled {
            self.toggled = true;
            return Poll::Pending;
        }
        Poll::Ready(Ok(()))
    }
}

fn take_span(t: &Tables, slot: u32) -> Result<Span, String> {
    let arc = lock(&t.spans).remove(&slot).ok_or_else(|| format!("no span in slot {slot}"))?;
    Arc::try_unwrap(arc).map_err(|arc| {
        // Put it back so that its owner can release it; the program is ill-formed.
        lock(&t.spans).insert(slot, arc);
        format!("span in slot {slot} is in use by another actor")
    })
}

fn exec(op: &Op, l: &mut Local, t: &Arc<Tables>) -> Result<ObsVal, String> {
    // `cl` counts closure invocations; closures must be lazy for non-recording spans (C16).
    macro_rules! counted {
        ($props:expr) => {{
            let props = to_cow($props);
            let cnt = &mut l.closures;
            move || {
                *cnt += 1;
                props
            }
        }};
    }
    // single-pair variants go through the singular API (with_property / add_property)
    macro_rules! counted1 {
        ($props:expr) => {{
            let pair = $props[0].clone();
            let cnt = &mut l.closures;
            move || {
                *cnt += 1;
                pair
            }
        }};
    }
    match op {
        Op::Root { slot, name, trace, remote_parent, sampled, props } => {
            let ctx = SpanContext::new(TraceId(trace.0), SpanId(*remote_parent)).sampled(*sampled);
            let mut s = Span::root(name.clone(), ctx);
            if !props.is_empty() {
                s = if props.len() == 1 { s.with_property(counted1!(props)) } else { s.with_properties(counted!(props)) };
            }
            put_span(t, *slot, s)?;
            Ok(ObsVal::Unit)
        }
        Op::Child { slot, name, parents, single, props } => {
            let ps: Vec<Arc<Span>> = parents.iter().map(|p| get_span(t, *p)).collect::<Result<_, _>>()?;
            let mut s = if *single {
                if ps.len() != 1 {
                    return Err("single-parent child needs exactly one parent".into());
                }
                Span::enter_with_parent(name.clone(), &ps[0])
            } else {
                Span::enter_with_parents(name.clone(), ps.iter().map(|a| &**a))
            };
            if !props.is_empty() {
                s = if props.len() == 1 { s.with_property(counted1!(props)) } else { s.with_properties(counted!(props)) };
            }
            drop(ps);
            put_span(t, *slot, s)?;
            Ok(ObsVal::Unit)
        }
        Op::ChildLocal { slot, name, props } => {
            let mut s = Span::enter_with_local_parent(name.clone());
            if !props.is_empty() {
                s = if props.len() == 1 { s.with_property(counted1!(props)) } else { s.with_properties(counted!(props)) };
            }
            put_span(t, *slot, s)?;
            Ok(ObsVal::Unit)
        }
        Op::Noop { slot } => {
            put_span(t, *slot, Span::noop())?;
            Ok(ObsVal::Unit)
        }
        Op::RootFromSpan { slot, name, of, w3c } => {
            let src = get_span(t, *of)?;
            let ctx = SpanContext::from_span(&src);
            drop(src);
            root_from_ctx(t, *slot, name, ctx, *w3c)
        }
        Op::RootFromLocal { slot, name, w3c } => {
            let ctx = SpanContext::current_local_parent();
            root_from_ctx(t, *slot, name, ctx, *w3c)
        }
        Op::AddProps { slot, props } => {
            let s = get_span(t, *slot)?;
            if props.len() == 1 {
                s.add_property(counted1!(props));
            } else {
                s.add_properties(counted!(props));
            }
            Ok(ObsVal::Unit)
        }
        Op::AddEvent { slot, name, props } if name.starts_with("dep.") => {
            // the deprecated free-standing form
            let s = get_span(t, *slot)?;
            let props = props.clone();
            let cnt = &mut l.closures;
            #[allow(deprecated)]
            Event::add_to_parent(name.clone(), &s, move || {
                *cnt += 1;
                props.into_iter().map(|(k, v)| (k.into(), v.into())).collect::<Vec<(std::borrow::Cow<'static, str>, std::borrow::Cow<'static, str>)>>()
            });
            Ok(ObsVal::Unit)
        }
        Op::SetReporter => {
            let s = sched();
            s.world().actors[l.actor].blocking_call = true;
            fastrace::set_reporter(
                crate::sched::CaptureReporter,
                fastrace::collector::Config::default()
                    .cancelable(crate::explore::cancelable())
                    .report_interval(std::time::Duration::from_secs(1_000_000_000)),
            );
            s.world().actors[l.actor].blocking_call = false;
            Ok(ObsVal::Unit)
        }
        Op::ChurnScopes { n, slot } => {
            sched().world().actors[l.actor].bulk = true;
            let span = match slot {
                Some(sl) => Some(get_span(t, *sl)?),
                None => None,
            };
            for _ in 0..*n {
                match &span {
                    Some(s) => drop(s.set_local_parent()),
                    None => drop(fastrace::local::LocalCollector::start()),
                }
            }
            sched().world().actors[l.actor].bulk = false;
            Ok(ObsVal::Unit)
        }
        Op::BuildEvent { name } => {
            l.built_events.insert(name.clone(), Event::new(name.clone()));
            Ok(ObsVal::Unit)
        }
        Op::AddEvent { slot, name, props } => {
            let s = get_span(t, *slot)?;
            let mut e = l.built_events.remove(name).unwrap_or_else(|| Event::new(name.clone()));
            if !props.is_empty() {
                e = if props.len() == 1 { e.with_property(counted1!(props)) } else { e.with_properties(counted!(props)) };
            }
            s.add_event(e);
            Ok(ObsVal::Unit)
        }
        Op::Cancel { slot } => {
            let s = get_span(t, *slot)?;
            s.cancel();
            Ok(ObsVal::Unit)
        }
        Op::Finish { slot } => {
            let s = take_span(t, *slot)?;
            drop(s);
            Ok(ObsVal::Unit)
        }
        Op::ObserveSpan { slot } => {
            let s = get_span(t, *slot)?;
            Ok(ObsVal::Ctx(ctx_of(SpanContext::from_span(&s))))
        }
        Op::Elapsed { slot } => {
            let s = get_span(t, *slot)?;
            Ok(ObsVal::ElapsedNs(s.elapsed().map(|d| d.as_nanos() as u64)))
        }
        Op::SetLocalParent { slot } => {
            let s = get_span(t, *slot)?;
            let g = s.set_local_parent();
            l.guards.push(Guard::Parent(g));
            Ok(ObsVal::Unit)
        }
        Op::LocalEnter { name, props } => {
            let mut s = LocalSpan::enter_with_local_parent(name.clone());
            if !props.is_empty() {
                s = if props.len() == 1 { s.with_property(counted1!(props)) } else { s.with_properties(counted!(props)) };
            }
            l.guards.push(Guard::Local(s));
            Ok(ObsVal::Unit)
        }
        Op::LcStart => {
            l.guards.push(Guard::Collector(LocalCollector::start()));
            Ok(ObsVal::Unit)
        }
        Op::Pop => {
            let g = l.guards.pop().ok_or("pop on empty guard stack")?;
            drop(g);
            Ok(ObsVal::Unit)
        }
        Op::LcCollect { set } => {
            // the innermost local collector; local spans opened under it may still be open (they
            // are closed at the collection time and their guards are released afterwards)
            let pos = l.guards.iter().rposition(|g| matches!(g, Guard::Collector(_))).ok_or("collect without a local collector")?;
            if l.guards[pos + 1..].iter().any(|g| !matches!(g, Guard::Local(_))) {
                return Err("a scope is open above the local collector".into());
            }
            let Guard::Collector(c) = l.guards.remove(pos) else { unreachable!() };
            let spans = c.collect();
            lock(&t.sets).insert(*set, spans);
            Ok(ObsVal::Unit)
        }
        Op::LocalAddProps { props } => {
            if props.len() == 1 {
                LocalSpan::add_property(counted1!(props));
            } else {
                LocalSpan::add_properties(counted!(props));
            }
            Ok(ObsVal::Unit)
        }
        Op::LocalAddEvent { name, props } if name.starts_with("dep.") => {
            let props = props.clone();
            let cnt = &mut l.closures;
            #[allow(deprecated)]
            Event::add_to_local_parent(name.clone(), move || {
                *cnt += 1;
                props.into_iter().map(|(k, v)| (k.into(), v.into())).collect::<Vec<(std::borrow::Cow<'static, str>, std::borrow::Cow<'static, str>)>>()
            });
            Ok(ObsVal::Unit)
        }
        Op::LocalAddEvent { name, props } => {
            let mut e = l.built_events.remove(name).unwrap_or_else(|| Event::new(name.clone()));
            if !props.is_empty() {
                e = if props.len() == 1 { e.with_property(counted1!(props)) } else { e.with_properties(counted!(props)) };
            }
            LocalSpan::add_event(e);
            Ok(ObsVal::Unit)
        }
        Op::ObserveLocal => Ok(ObsVal::Ctx(ctx_of(SpanContext::current_local_parent()))),
        Op::PushChildSpans { set, slot } => {
            let s = get_span(t, *slot)?;
            let ls = lock(&t.sets).get(set).cloned().ok_or("no such set")?;
            s.push_child_spans(ls);
            Ok(ObsVal::Unit)
        }
        Op::ToRecords { set, trace, span_id } => {
            let ls = lock(&t.sets).get(set).cloned().ok_or("no such set")?;
            let recs = ls.to_span_records(SpanContext::new(TraceId(trace.0), SpanId(*span_id)));
            Ok(ObsVal::Records(recs.iter().map(Rec::from_record).collect()))
        }
        Op::DropSet { set } => {
            let ls = lock(&t.sets).remove(set);
            drop(ls);
            Ok(ObsVal::Unit)
        }
        Op::MkInSpan { fut, slot, polls, tag, inner_enter_on_poll } => {
            let span = take_span(t, *slot)?;
            let script = Script {
                tag: tag.clone(),
                calls: 0,
                total: *polls,
                pending_first: false,
                toggled: false,
                failing: false,
                tables: t.clone(),
            };
            let f: Pin<Box<dyn Future<Output = u32> + Send>> = if *inner_enter_on_poll {
                Box::pin(script.enter_on_poll(format!("{tag}.eop")).in_span(span))
            } else {
                Box::pin(script.in_span(span))
            };
            lock(&t.futs).insert(*fut, FutBox::Fut(f));
            Ok(ObsVal::Unit)
        }
        Op::MkEnterOnPoll { fut, polls, tag } => {
            let script = Script {
                tag: tag.clone(),
                calls: 0,
                total: *polls,
                pending_first: false,
                toggled: false,
                failing: false,
                tables: t.clone(),
            };
            let f: Pin<Box<dyn Future<Output = u32> + Send>> =
                Box::pin(script.enter_on_poll(format!("{tag}.eop")));
            lock(&t.futs).insert(*fut, FutBox::Fut(f));
            Ok(ObsVal::Unit)
        }
        Op::MkNested { fut, outer, inner, polls, tag } => {
            let so = take_span(t, *outer)?;
            let si = take_span(t, *inner)?;
            let script = Script {
                tag: tag.clone(),
                calls: 0,
                total: *polls,
                pending_first: false,
                toggled: false,
                failing: false,
                tables: t.clone(),
            };
            let f: Pin<Box<dyn Future<Output = u32> + Send>> = Box::pin(script.in_span(si).in_span(so));
            lock(&t.futs).insert(*fut, FutBox::Fut(f));
            Ok(ObsVal::Unit)
        }
        Op::Poll { fut } => {
            let mut fb = lock(&t.futs).remove(fut).ok_or("no such future")?;
            let w = noop_waker();
            let mut cx = Context::from_waker(&w);
            let r = match &mut fb {
                FutBox::Fut(f) => match f.as_mut().poll(&mut cx) {
                    Poll::Ready(v) => Some(v),
                    Poll::Pending => None,
                },
                _ => return Err("not a future".into()),
            };
            lock(&t.futs).insert(*fut, fb);
            Ok(ObsVal::Ready(r))
        }
        Op::MkStream { fut, slot, items, pending_first, tag } => {
            let span = take_span(t, *slot)?;
            let script = Script {
                tag: tag.clone(),
                calls: 0,
                total: *items + 1,
                pending_first: *pending_first,
                toggled: false,
                failing: false,
                tables: t.clone(),
            };
            let s: Pin<Box<dyn Stream<Item = u32> + Send>> = Box::pin(fastrace_futures::StreamExt::in_span(script, span));
            lock(&t.futs).insert(*fut, FutBox::Stream(s));
            Ok(ObsVal::Unit)
        }
        Op::PollNext { fut } => {
            let mut fb = lock(&t.futs).remove(fut).ok_or("no such stream")?;
            let w = noop_waker();
            let mut cx = Context::from_waker(&w);
            let r = match &mut fb {
                FutBox::Stream(f) => match f.as_mut().poll_next(&mut cx) {
                    Poll::Ready(Some(v)) => ObsVal::Ready(Some(v)),
                    Poll::Ready(None) => ObsVal::Count(0),
                    Poll::Pending => ObsVal::Ready(None),
                },
                _ => return Err("not a stream".into()),
            };
            lock(&t.futs).insert(*fut, fb);
            Ok(r)
        }
        Op::MkSink { fut, slot, tag, pending_first, failing } => {
            use fastrace_futures::SinkExt;
            let span = take_span(t, *slot)?;
            let script = Script {
                tag: tag.clone(),
                calls: 0,
                total: 0,
                pending_first: *pending_first,
                toggled: false,
                failing: *failing,
                tables: t.clone(),
            };
            let s: Pin<Box<dyn Sink<u32, Error = ()> + Send>> =
                Box::pin(SinkExt::<u32>::in_span(script, span));
            lock(&t.futs).insert(*fut, FutBox::Sink(s));
            Ok(ObsVal::Unit)
        }
        Op::SinkReady { fut } | Op::SinkSend { fut } | Op::SinkFlush { fut } | Op::SinkClose { fut } => {
            let mut fb = lock(&t.futs).remove(fut).ok_or("no such sink")?;
            let w = noop_waker();
            let mut cx = Context::from_waker(&w);
            let r = match &mut fb {
                FutBox::Sink(f) => {
                    let r = match op {
                        Op::SinkReady { .. } => f.as_mut().poll_ready(&mut cx),
                        Op::SinkSend { .. } => Poll::Ready(f.as_mut().start_send(7)),
                        Op::SinkFlush { .. } => f.as_mut().poll_flush(&mut cx),
                        _ => f.as_mut().poll_close(&mut cx),
                    };
                    match r {
                        Poll::Ready(_) => ObsVal::Ready(Some(0)),
                        Poll::Pending => ObsVal::Ready(None),
                    }
                }
                _ => return Err("not a sink".into()),
            };
            lock(&t.futs).insert(*fut, fb);
            Ok(r)
        }
        Op::DropFut { fut } => {
            let fb = lock(&t.futs).remove(fut);
            drop(fb);
            Ok(ObsVal::Unit)
        }
        Op::Reentrant { outer, inner } => exec_reentrant(outer, inner, l, t),
        Op::Cycle => {
            let ok = fastrace::verif::run_collector_cycle();
            sched().world().cycle_in_progress = false;
            Ok(ObsVal::Count(ok as u64))
        }
        Op::Flush => {
            // (not a scheduling point when called from a thread-local destructor: the actor has
            // already left the schedule)
            if crate::sched::me().is_some() {
                sched().yield_at(l.actor, Pending::Flush);
            }
            fastrace::flush();
            Ok(ObsVal::Unit)
        }
        Op::Signal(f) => {
            let mut w = sched().world();
            w.flags.insert(*f);
            w.push_log(Some(l.actor), Ev::Signal(*f));
            Ok(ObsVal::Unit)
        }
        Op::Wait(f) => {
            if crate::sched::me().is_none() {
                return Err("wait outside of the schedule".into());
            }
            sched().yield_at(l.actor, Pending::Wait(*f));
            Ok(ObsVal::Unit)
        }
        Op::Fill { leave, via } => {
            let s = get_span(t, *via)?;
            sched().world().actors[l.actor].bulk = true;
            // first make sure the thread's queue exists
            let mut n = 0u64;
            loop {
                let free = fastrace::verif::ring_free_slots().ok_or("no ring")?;
                if free <= *leave {
                    break;
                }
                // an empty local-parent scope submits one (empty) span set
                drop(s.set_local_parent());
                n += 1;
                if n > 50_000 {
                    sched().world().actors[l.actor].bulk = false;
                    return Err("fill does not converge".into());
                }
            }
            sched().world().actors[l.actor].bulk = false;
            Ok(ObsVal::Count(n))
        }
        Op::FillScopes { slot, leave } => {
            let s = get_span(t, *slot)?;
            // the limit is 4096 scopes
            let target = 4096usize.saturating_sub(*leave).saturating_sub(l.guards.iter().filter(|g| !matches!(g, Guard::Local(_))).count());
            for _ in 0..target {
                l.fill_guards.push(Guard::Parent(s.set_local_parent()));
            }
            Ok(ObsVal::Count(target as u64))
        }
        Op::FillLocalSpans { leave } => {
            let target = 10240usize.saturating_sub(*leave);
            for i in 0..target {
                let g = LocalSpan::enter_with_local_parent(if i % 2 == 0 { "fill.a" } else { "fill.b" });
                drop(g);
            }
            Ok(ObsVal::Count(target as u64))
        }
        Op::Unfill => {
            sched().world().actors[l.actor].bulk = true;
            while let Some(g) = l.fill_guards.pop() {
                drop(g);
            }
            sched().world().actors[l.actor].bulk = false;
            Ok(ObsVal::Unit)
        }
        Op::RootRandom { slot, name } => {
            let s1 = Span::root(name.clone(), SpanContext::random());
            put_span(t, *slot, s1)?;
            let s2 = Span::root(format!("{name}.d"), SpanContext::default());
            drop(s2);
            Ok(ObsVal::Unit)
        }
        Op::RandomIds => {
            let a = TraceId::random();
            let b = SpanId::random();
            let c = SpanContext::random();
            let d = SpanContext::default();
            Ok(ObsVal::Count((a.0 as u64) ^ b.0 ^ (c.span_id.0) ^ (d.span_id.0) | 1))
        }
        Op::AtThreadExit { inner } => {
            let hook = ExitHook { ops: inner.clone(), tables: t.clone(), actor: l.actor };
            AT_EXIT.with(|c| *c.borrow_mut() = Some(hook));
            Ok(ObsVal::Unit)
        }
        Op::Warm => {
            let n = fastrace::verif::ring_free_slots().ok_or("no ring")?;
            Ok(ObsVal::Count(n as u64))
        }
        Op::BusyWait { micros } => {
            let t0 = std::time::Instant::now();
            while t0.elapsed().as_micros() < *micros as u128 {
                std::hint::spin_loop();
            }
            Ok(ObsVal::Unit)
        }
    }
}

struct ExitHook {
    ops: Vec<Op>,
    tables: Arc<Tables>,
    actor: usize,
}

thread_local! {
    static AT_EXIT: std::cell::RefCell<Option<ExitHook>> = const { std::cell::RefCell::new(None) };
}

impl Drop for ExitHook {
    fn drop(&mut self) {
        // Runs while the thread's local storage is being torn down. A panic out of a thread-local
        // destructor aborts the process, so every call is caught and recorded.
        let mut l = Local { actor: self.actor, guards: Vec::new(), fill_guards: Vec::new(), closures: 0, cur_op: usize::MAX, built_events: HashMap::new() };
        for (i, op) in self.ops.iter().enumerate() {
            let t = self.tables.clone();
            let r = catch_unwind(AssertUnwindSafe(|| exec(op, &mut l, &t)));
            let val = match r {
                Ok(Ok(v)) => v,
                Ok(Err(e)) => ObsVal::IllFormed(e),
                Err(e) => ObsVal::Panic(format!("in a thread-local destructor: {}", panic_msg(e))),
            };
            lock(&self.tables.obs).push(Obs {
                actor: self.actor,
                op: usize::MAX - 1,
                label: format!("at-exit:{i}:{}", crate::oracle::op_kind(op)),
                seq_begin: 0,
                seq_end: 0,
                unix_begin_ns: 0,
                unix_end_ns: 0,
                mono_begin_ns: 0,
                mono_end_ns: 0,
                val,
                closures: l.closures,
            });
        }
        let _ = catch_unwind(AssertUnwindSafe(|| {
            while let Some(g) = l.guards.pop() {
                drop(g);
            }
        }));
        // spans created by the destructor live in slots >= 900 and are released here
        let mine: Vec<Arc<Span>> = {
            let mut sp = lock(&self.tables.spans);
            let keys: Vec<u32> = sp.keys().copied().filter(|k| *k >= 900 && *k < 1000).collect();
            keys.into_iter().filter_map(|k| sp.remove(&k)).collect()
        };
        let _ = catch_unwind(AssertUnwindSafe(move || drop(mine)));
    }
}

fn root_from_ctx(t: &Tables, slot: u32, name: &str, ctx: Option<SpanContext>, w3c: bool) -> Result<ObsVal, String> {
    // what the downstream side ends up with: the context itself, or its traceparent round trip
    let ctx = match ctx {
        Some(c) if w3c => SpanContext::decode_w3c_traceparent(&c.encode_w3c_traceparent()),
        other => other,
    };
    let obs = ctx_of(ctx);
    let span = match ctx {
        None => Span::noop(),
        Some(c) => Span::root(name.to_string(), c),
    };
    put_span(t, slot, span)?;
    Ok(ObsVal::Ctx(obs))
}

/// Runs `inner` operations from inside the property closure of `outer`.
fn exec_reentrant(outer: &Op, inner: &[Op], l: &mut Local, t: &Arc<Tables>) -> Result<ObsVal, String> {
    // The closure needs `l` mutably while the outer call is in progress; the outer call itself only
    // touches `l.guards` after the closure returned.
    let lp: *mut Local = l;
    let t2 = t.clone();
    let inner_results: Arc<Mutex<Vec<Result<ObsVal, String>>>> = Arc::new(Mutex::new(Vec::new()));
    let ir = inner_results.clone();
    let run_inner = move || {
        let l2: &mut Local = unsafe { &mut *lp };
        l2.closures += 1;
        for op in inner {
            let r = exec(op, l2, &t2);
            lock(&ir).push(r);
        }
    };
    let lazy = t.lazy_closures;
    let run_inner = &run_inner;
    // eager: the closure runs the inner operations, then returns the pairs; lazy: it returns an
    // iterator that runs them when its first element is asked for
    let kv = move |props: &Props| {
        if !lazy {
            run_inner();
        }
        let mut first = lazy;
        props.clone().into_iter().map(move |pair| {
            if first {
                first = false;
                run_inner();
            }
            pair
        })
    };
    match outer {
        Op::Root { slot, name, trace, remote_parent, sampled, props } => {
            let ctx = SpanContext::new(TraceId(trace.0), SpanId(*remote_parent)).sampled(*sampled);
            let s = Span::root(name.clone(), ctx).with_properties(|| {
                kv(props)
            });
            put_span(t, *slot, s)?;
        }
        Op::Child { slot, name, parents, props, .. } => {
            let ps: Vec<Arc<Span>> = parents.iter().map(|p| get_span(t, *p)).collect::<Result<_, _>>()?;
            let s = Span::enter_with_parents(name.clone(), ps.iter().map(|a| &**a)).with_properties(|| {
                kv(props)
            });
            drop(ps);
            put_span(t, *slot, s)?;
        }
        Op::AddProps { slot, props } => {
            let s = get_span(t, *slot)?;
            s.add_properties(|| {
                kv(props)
            });
        }
        Op::AddEvent { slot, name, props } if name.starts_with("dep.") => {
            // the deprecated free-standing form, with a closure that traces
            let s = get_span(t, *slot)?;
            #[allow(deprecated)]
            Event::add_to_parent(name.clone(), &s, || {
                kv(props).map(|(k, v)| (std::borrow::Cow::<'static, str>::from(k), std::borrow::Cow::<'static, str>::from(v)))
            });
        }
        Op::AddEvent { slot, name, props } => {
            let s = get_span(t, *slot)?;
            let e = Event::new(name.clone()).with_properties(|| {
                kv(props)
            });
            s.add_event(e);
        }
        Op::LocalEnter { name, props } => {
            let s = LocalSpan::enter_with_local_parent(name.clone()).with_properties(|| {
                kv(props)
            });
            let l3: &mut Local = unsafe { &mut *lp };
            l3.guards.push(Guard::Local(s));
        }
        Op::LocalAddProps { props } => {
            LocalSpan::add_properties(|| {
                kv(props)
            });
        }
        Op::LocalAddEvent { name, props } if name.starts_with("dep.") => {
            #[allow(deprecated)]
            Event::add_to_local_parent(name.clone(), || {
                kv(props).map(|(k, v)| (std::borrow::Cow::<'static, str>::from(k), std::borrow::Cow::<'static, str>::from(v)))
            });
        }
        Op::LocalAddEvent { name, props } => {
            let e = Event::new(name.clone()).with_properties(|| {
                kv(props)
            });
            LocalSpan::add_event(e);
        }
        other => return Err(format!("op {} takes no closure", other.short())),
    }
    let rs = std::mem::take(&mut *lock(&inner_results));
    for r in rs {
        match r {
            Err(e) => return Err(format!("inner: {e}")),
            Ok(ObsVal::Panic(p)) => return Ok(ObsVal::Panic(p)),
            _ => {}
        }
    }
    Ok(ObsVal::Unit)
}

fn panic_msg(e: Box<dyn std::any::Any + Send>) -> String {
    if let Some(s) = e.downcast_ref::<&str>() {
        s.to_string()
    } else if let Some(s) = e.downcast_ref::<String>() {
        s.clone()
    } else {
        "<non-string panic payload>".into()
    }
}

/// Body of an actor thread.
pub fn actor_main(id: usize, actor: Actor, t: Arc<Tables>) {
    let s = sched();
    crate::sched::set_me(Some(id));
    s.wait_start(id);
    let mut l = Local { actor: id, guards: Vec::new(), fill_guards: Vec::new(), closures: 0, cur_op: 0, built_events: HashMap::new() };
    let t0 = t.t0.unwrap();
    for (i, op) in actor.ops.iter().enumerate() {
        l.cur_op = i;
        l.closures = 0;
        let seq_begin = {
            let mut w = s.world();
            w.actors[id].pc = i;
            w.push_log(Some(id), Ev::OpBegin { op: i });
            w.seq
        };
        let unix_begin_ns = unix_now_ns();
        let mono_begin_ns = t0.elapsed().as_nanos() as u64;
        let r = catch_unwind(AssertUnwindSafe(|| exec(op, &mut l, &t)));
        let mono_end_ns = t0.elapsed().as_nanos() as u64;
        let unix_end_ns = unix_now_ns();
        let val = match r {
            Ok(Ok(v)) => v,
            Ok(Err(e)) => ObsVal::IllFormed(e),
            Err(e) => ObsVal::Panic(panic_msg(e)),
        };
        let seq_end = {
            let mut w = s.world();
            w.push_log(Some(id), Ev::OpEnd { op: i });
            w.seq
        };
        lock(&t.obs).push(Obs {
            actor: id,
            op: i,
            label: String::new(),
            seq_begin,
            seq_end,
            unix_begin_ns,
            unix_end_ns,
            mono_begin_ns,
            mono_end_ns,
            val,
            closures: l.closures,
        });
    }
    // Release whatever the program left open, innermost first (well-scopedness).
    {
        let n = actor.ops.len();
        let mut w = s.world();
        w.actors[id].pc = n;
        w.push_log(Some(id), Ev::OpBegin { op: n });
    }
    let rel_unix_begin = unix_now_ns();
    let rel_mono_begin = t0.elapsed().as_nanos() as u64;
    let rel_seq = s.world().seq;
    let r = catch_unwind(AssertUnwindSafe(|| {
        while let Some(g) = l.fill_guards.pop() {
            drop(g);
        }
        while let Some(g) = l.guards.pop() {
            drop(g);
        }
    }));
    {
        let seq = s.world().seq;
        lock(&t.obs).push(Obs {
            actor: id,
            op: actor.ops.len(),
            label: String::new(),
            seq_begin: rel_seq,
            seq_end: seq,
            unix_begin_ns: rel_unix_begin,
            unix_end_ns: unix_now_ns(),
            mono_begin_ns: rel_mono_begin,
            mono_end_ns: t0.elapsed().as_nanos() as u64,
            val: match r {
                Err(e) => ObsVal::Panic(panic_msg(e)),
                Ok(()) => ObsVal::Unit,
            },
            closures: 0,
        });
    }
    {
        let n = actor.ops.len();
        s.world().push_log(Some(id), Ev::OpEnd { op: n });
    }
    // Commands still parked in the overflow list when the thread exits may be lost (C09 only
    // protects them while the thread lives); make that visible to the oracles.
    let traced = {
        let w = s.world();
        w.actors[id].pushed > 0 || w.actors[id].bulk_pushes > 0
    };
    if traced {
        if let Some(n) = fastrace::verif::parked_commands() {
            let free = fastrace::verif::ring_free_slots().unwrap_or(0);
            if n > 0 {
                // with room in the ring the thread-exit flush must still deliver them
                let tag = if free >= n { "parked-at-exit-with-room" } else { "parked-at-exit" };
                s.world().push_log(Some(id), Ev::Note(format!("{tag}:{n}:{free}")));
            }
        }
    }
    s.yield_at(id, Pending::Exit);
    crate::sched::set_me(None);
    s.finish(id);
}
