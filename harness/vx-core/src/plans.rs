//! Per-property check plans: which programs, which configurations, which bounds, which rules.

use std::collections::HashSet;
use std::time::Duration;

use crate::check::CheckSpec;
use crate::drivers::*;
use crate::gen::*;
use crate::oracle::Rule;
use crate::program::*;

pub struct PlanBuilder {
    pub jobs: Vec<Job>,
    pub split: HashSet<usize>,
}

impl PlanBuilder {
    pub fn new() -> Self {
        PlanBuilder { jobs: Vec::new(), split: HashSet::new() }
    }
    pub fn add(&mut self, engine: &str, program: Program, cancelable: bool, bound: Option<u32>, rules: &[Rule], split: bool) {
        let id = self.jobs.len();
        self.jobs.push(Job {
            id,
            programs: vec![program],
            cancelable,
            bound,
            rules: rules.iter().map(|r| rule_name(*r).to_string()).collect(),
            max_execs: 5_000_000,
            prefix: vec![],
            expand_only: false,
            engine: engine.into(),
        });
        if split {
            self.split.insert(id);
        }
    }
}

impl PlanBuilder {
    /// All programs of a generator configuration, each with `cycles` atomic collector cycles placed
    /// at every combination of ring-push boundaries (all interleavings, no preemption bound).
    pub fn add_gen(&mut self, cfg: &GenCfg, cycles: usize, configs: &[bool], rules: &[Rule], limit: u64) -> u64 {
        let mut batch: Vec<Program> = Vec::new();
        let mut all: Vec<Vec<Program>> = Vec::new();
        let n = generate(cfg, limit, &mut |p| {
            batch.push(p.collector(cycles, true, 0));
            if batch.len() >= 100 {
                all.push(std::mem::take(&mut batch));
            }
            true
        });
        if !batch.is_empty() {
            all.push(batch);
        }
        for programs in all {
            for &c in configs {
                let id = self.jobs.len();
                self.jobs.push(Job {
                    id,
                    programs: programs.clone(),
                    cancelable: c,
                    bound: None,
                    rules: rules.iter().map(|r| rule_name(*r).to_string()).collect(),
                    max_execs: 200_000,
                    prefix: vec![],
                    expand_only: false,
                    engine: "SEQ".into(),
                });
            }
        }
        n
    }
}

pub fn plan(property: &str, tier: &str) -> Option<CheckSpec> {
    let quick = tier == "quick";
    let mut b = PlanBuilder::new();
    let mut assumptions = vec![
        "actors are serialised: only sequentially consistent interleavings at the hook points are explored; rtrb push/pop, Arc counts, parking_lot mutexes and thread_local! are trusted".to_string(),
        "scheduling points: every ring push, receiver registration, cycle start, each receiver of a drain, the empty->abandoned check, harness hand-offs (signal/wait), flush, thread exit".to_string(),
    ];
    let rule_text;
    let bound_text;
    match property {
        "C01" => {
            let rules = [Rule::Liveness, Rule::NoPanic, Rule::Deliver, Rule::Prompt, Rule::NoExtra];
            let bound = if quick { 2 } else { 3 };
            for s in warm(&["S1", "S2", "S3", "S3b", "S4", "S5", "S7", "S8"]) {
                b.add("SCHED", scenario(&s, 2).unwrap(), false, Some(bound), &rules, true);
            }
            rule_text = "named multi-threaded scenarios x all schedules up to the preemption bound; an execution is non-trivial when a collector drain step falls between the first and the last queue command of the program".to_string();
            bound_text = format!("preemptions <= {bound}; 2 collector cycles + final flush");
            assumptions.push("wall-clock half of the statement (the background thread loops every interval) is abstracted to 'a cycle happens'".into());
        }
        "C03" => {
            let rules = [Rule::Liveness, Rule::NoPanic, Rule::Hold, Rule::NoExtra];
            let bound = if quick { 2 } else { 3 };
            for s in warm(&["S2", "S3", "S3b", "S4", "S5", "S5b", "S8", "S20"]) {
                b.add("SCHED", scenario(&s, 2).unwrap(), true, Some(bound), &rules, true);
            }
            rule_text = "named multi-threaded scenarios (cancelable) x all schedules up to the preemption bound".to_string();
            bound_text = format!("preemptions <= {bound}; 2 collector cycles + final flush");
        }
        "C04" => {
            let rules = [Rule::Liveness, Rule::NoPanic, Rule::Cancel, Rule::Hold, Rule::Deliver, Rule::Attach, Rule::NoExtra];
            let bound = if quick { 2 } else { 3 };
            for s in warm(&["S11", "S12", "S13", "S14", "S15", "S17"]) {
                for c in [true, false] {
                    b.add("SCHED", scenario(&s, 2).unwrap(), c, Some(bound), &rules, true);
                }
            }
            rule_text = "named cancel scenarios x both configurations x all schedules up to the preemption bound".to_string();
            bound_text = format!("preemptions <= {bound}; 2 collector cycles + final flush");
        }
        "C06" => {
            let rules = [Rule::Liveness, Rule::NoPanic, Rule::Attach, Rule::NoExtra];
            let bound = if quick { 2 } else { 3 };
            for s in warm(&["S19", "S19r", "S8", "S4"]) {
                for c in [true, false] {
                    b.add("SCHED", scenario(&s, 2).unwrap(), c, Some(bound), &rules, true);
                }
            }
            rule_text = "attachment scenarios x both configurations x all schedules up to the preemption bound".to_string();
            bound_text = format!("preemptions <= {bound}; 2 collector cycles + final flush");
        }
        "C08" => {
            let rules = [Rule::Liveness, Rule::NoPanic, Rule::State];
            let bound = if quick { 2 } else { 3 };
            for s in warm(ALL_SCENARIOS) {
                for c in [true, false] {
                    b.add("SCHED", scenario(&s, 2).unwrap(), c, Some(bound), &rules, true);
                }
            }
            rule_text = "all named scenarios x both configurations x all schedules up to the preemption bound".to_string();
            bound_text = format!("preemptions <= {bound}; 2 collector cycles + final flush");
        }
        "C02" => {
            let rules = [Rule::Liveness, Rule::NoPanic, Rule::Tree, Rule::NoExtra, Rule::Deliver, Rule::Hold];
            let mut g = GenCfg::base("C02-tree");
            g.traces = vec![
                TraceOpt { trace: 0xA1, sampled: true, remote_parent: 0 },
                TraceOpt { trace: 0xB2_0000_0000_0000_0000_0000_0000_0001, sampled: true, remote_parent: 0x7700_0000_0000_0077 },
            ];
            g.max_spans = 3;
            g.max_parents = 2;
            g.ordered_parents = !quick;
            g.dup_parent = !quick;
            g.allow_scope = true;
            g.allow_child_local = true;
            g.max_depth = 2;
            g.max_locals = if quick { 1 } else { 3 };
            g.max_len = if quick { 5 } else { 6 };
            g.allow_noop = !quick;
            let n1 = b.add_gen(&g, 1, &[false, true], &rules, 2_000_000);
            // two actors in lock-step: spans created, scoped and finished on either thread
            let mut g2 = g.clone();
            g2.name = "C02-2actors".into();
            g2.actors = 2;
            g2.max_switches = 2;
            g2.max_len = if quick { 4 } else { 5 };
            g2.max_locals = 1;
            g2.max_spans = 2;
            g2.allow_noop = false;
            let n2 = b.add_gen(&g2, 1, &[false, true], &rules, 2_000_000);
            rule_text = format!("bounded-exhaustive generated programs ({n1} single-actor + {n2} two-actor lock-step) x every placement of 1 atomic collector cycle at a ring-push boundary x both configurations; non-trivial: a collector cycle falls between the first and last queue command");
            bound_text = format!("<= {} spans, <= {} local spans, scope depth <= 2, <= {} operations; 1 cycle placed anywhere + final flush", g.max_spans, g.max_locals, g.max_len);
        }
        _ => return None,
    }
    Some(CheckSpec {
        property: property.into(),
        tier: tier.into(),
        level: "model_checking".into(),
        jobs: b.jobs,
        split: b.split,
        rule_text,
        assumptions,
        bound_text,
        exhaustive_claim: true,
        wall_cap: Duration::from_secs(if quick { 120 } else { 3600 }),
    })
}
