//! Per-property check plans: which programs, which configurations, which bounds, which rules.

use std::collections::HashSet;
use std::time::Duration;

use crate::check::CheckSpec;
use crate::drivers::*;
use crate::gen::*;
use crate::oracle::Rule;
use crate::program::*;

pub struct PlanBuilder {
    pub jobs: Vec<Job>,
    pub split: HashSet<usize>,
    /// generator families whose program limit was reached (the family is then not covered in full)
    pub gen_capped: Vec<String>,
}

impl PlanBuilder {
    pub fn new() -> Self {
        PlanBuilder { jobs: Vec::new(), split: HashSet::new(), gen_capped: Vec::new() }
    }
    pub fn add(&mut self, engine: &str, program: Program, cancelable: bool, bound: Option<u32>, rules: &[Rule], split: bool) {
        let id = self.jobs.len();
        self.jobs.push(Job {
            id,
            programs: vec![program],
            cancelable,
            no_reporter: false,
            bound,
            rules: rules.iter().map(|r| rule_name(*r).to_string()).collect(),
            max_execs: 5_000_000,
            prefix: vec![],
            expand_only: false,
            engine: engine.into(),
            probe: None,
        });
        if split {
            self.split.insert(id);
        }
    }
}

impl PlanBuilder {
    /// Concurrent two-thread variants of generated programs (hand-offs only where needed), explored
    /// with a preemption bound and 2 collector cycles that yield inside the drain.
    pub fn add_concurrent(&mut self, cfg: &GenCfg, configs: &[bool], bound: u32, rules: &[Rule], max_moved: usize) -> u64 {
        let mut progs: Vec<Program> = Vec::new();
        let generated = generate(cfg, 1_000_000, &mut |p| {
            progs.extend(concurrentize(&p, max_moved).into_iter().map(|q| q.collector(2, false, 0)));
            true
        });
        if generated >= 1_000_000 {
            self.gen_capped.push(format!("{} (first 1000000 programs in generation order)", cfg.name));
        }
        let n = progs.len() as u64;
        for chunk in progs.chunks(4) {
            for &c in configs {
                let id = self.jobs.len();
                self.jobs.push(Job {
                    id,
                    programs: chunk.to_vec(),
                    cancelable: c,
                    no_reporter: false,
                    bound: Some(bound),
                    rules: rules.iter().map(|r| rule_name(*r).to_string()).collect(),
                    max_execs: 300_000,
                    prefix: vec![],
                    expand_only: false,
                    engine: "SCHED".into(),
                    probe: None,
                });
            }
        }
        n
    }

    /// A batch of hand-built programs, explored with all interleavings (no preemption bound).
    pub fn add_batch(&mut self, programs: Vec<Program>, cancelable: bool, no_reporter: bool, rules: &[Rule]) {
        for chunk in programs.chunks(50) {
            let id = self.jobs.len();
            self.jobs.push(Job {
                id,
                programs: chunk.to_vec(),
                cancelable,
                no_reporter,
                bound: None,
                rules: rules.iter().map(|r| rule_name(*r).to_string()).collect(),
                max_execs: 200_000,
                prefix: vec![],
                expand_only: false,
                engine: "SEQ".into(),
                probe: None,
            });
        }
    }

    /// All programs of a generator configuration, each with `cycles` atomic collector cycles placed
    /// at every combination of ring-push boundaries (all interleavings, no preemption bound).
    pub fn add_gen(&mut self, cfg: &GenCfg, cycles: usize, configs: &[bool], rules: &[Rule], limit: u64) -> u64 {
        let mut batch: Vec<Program> = Vec::new();
        let mut all: Vec<Vec<Program>> = Vec::new();
        let n = generate(cfg, limit, &mut |p| {
            batch.push(p.collector(cycles, true, 0));
            if batch.len() >= 100 {
                all.push(std::mem::take(&mut batch));
            }
            true
        });
        if !batch.is_empty() {
            all.push(batch);
        }
        if n >= limit {
            self.gen_capped.push(format!("{} (first {} programs in generation order)", cfg.name, limit));
        }
        for programs in all {
            for &c in configs {
                let id = self.jobs.len();
                self.jobs.push(Job {
                    id,
                    programs: programs.clone(),
                    cancelable: c,
                    no_reporter: false,
                    bound: None,
                    rules: rules.iter().map(|r| rule_name(*r).to_string()).collect(),
                    max_execs: 200_000,
                    prefix: vec![],
                    expand_only: false,
                    engine: "SEQ".into(),
                probe: None,
                });
            }
        }
        n
    }
}

/// The "universal" family: one generator configuration with the whole operation alphabet switched
/// on (sampled and unsampled traces, no-op spans, ordered / duplicated parent lists, nested scopes,
/// local collectors and pushed sets, attachments through every route, cancel, remote children,
/// observations), kept short. Every SEQ property runs it under its own rules, so that no rule set
/// depends on the narrower alphabet of its dedicated generator.
pub fn universal(quick: bool) -> GenCfg {
    let mut g = GenCfg::base("U");
    g.traces = vec![
        TraceOpt { trace: 0x0A, sampled: true, remote_parent: 0 },
        TraceOpt { trace: 0xFFFF_FFFF_FFFF_FFFF_0000_0000_0000_000B, sampled: false, remote_parent: 0x8000_0000_0000_0001 },
    ];
    g.any_trace_order = true;
    g.max_spans = 3;
    g.max_parents = 2;
    g.ordered_parents = true;
    g.dup_parent = true;
    g.allow_noop = true;
    g.allow_inert_local = true;
    g.allow_scope = true;
    g.allow_lc = true;
    g.max_sets = 1;
    g.max_depth = 2;
    g.max_locals = 2;
    g.max_attach = 1;
    g.handle_attach = true;
    g.local_attach = true;
    g.creation_props = true;
    g.allow_cancel = true;
    g.cancel_non_root = true;
    g.allow_child_local = true;
    g.finish_while_scoped = true;
    g.remote_children = true;
    g.observe = true;
    g.elapsed = true;
    g.to_records = true;
    g.collect_open = true;
    g.max_len = if quick { 3 } else { 4 };
    g
}

pub fn plan(property: &str, tier: &str) -> Option<CheckSpec> {
    let quick = tier == "quick";
    let mut b = PlanBuilder::new();
    let mut assumptions = vec![
        "actors are serialised: only sequentially consistent interleavings at the hook points are explored; rtrb push/pop, Arc counts, parking_lot mutexes and thread_local! are trusted".to_string(),
        "scheduling points: every ring push, receiver registration, cycle start, each receiver of a drain, the empty->abandoned check, harness hand-offs (signal/wait), flush, thread exit".to_string(),
    ];
    let rule_text;
    let bound_text;
    let mut external: Option<(String, Vec<String>)> = None;
    match property {
        "C01" => {
            let rules = [Rule::Liveness, Rule::NoPanic, Rule::Deliver, Rule::Prompt, Rule::NoExtra];
            let bound = if quick { 2 } else { 3 };
            for s in warm(&["S1", "S2", "S3", "S3b", "S4", "S5", "S7", "S8"]) {
                b.add("SCHED", scenario(&s, 2).unwrap(), false, Some(bound), &rules, true);
            }
            let mut g = GenCfg::base("C01-seq");
            g.traces = vec![TraceOpt { trace: 0x1A, sampled: true, remote_parent: 0 }, TraceOpt { trace: 0x1B, sampled: true, remote_parent: 9 }];
            g.max_spans = 3;
            g.max_parents = 2;
            g.allow_scope = true;
            g.allow_child_local = true;
            g.finish_while_scoped = true;
            g.max_depth = 2;
            g.max_locals = if quick { 1 } else { 3 };
            g.max_len = if quick { 5 } else { 6 };
            let n1 = b.add_gen(&g, if quick { 1 } else { 2 }, &[false], &rules, 3_000_000);
            let mut g2 = g.clone();
            g2.name = "C01-2actors".into();
            g2.actors = 2;
            g2.max_switches = 2;
            g2.max_spans = 2;
            g2.max_locals = 1;
            g2.max_len = if quick { 4 } else { 5 };
            let n2 = b.add_gen(&g2, 1, &[false], &rules, 3_000_000);
            let mut gc = GenCfg::base("C01-conc");
            gc.traces = vec![TraceOpt { trace: 0xC01, sampled: true, remote_parent: 0 }, TraceOpt { trace: 0xC02, sampled: true, remote_parent: 9 }];
            gc.max_spans = 3;
            gc.max_parents = 2;
            gc.allow_scope = true;
            gc.max_depth = 1;
            gc.max_locals = 1;
            gc.max_len = if quick { 3 } else { 4 };
            let nconc = b.add_concurrent(&gc, &[false], 2, &rules, if quick { 1 } else { 2 });
            // two roots that carry the same trace id (two requests continuing one distributed trace)
            let mut gs = g.clone();
            gs.name = "C01-sameid".into();
            gs.traces = vec![TraceOpt { trace: 0x1D, sampled: true, remote_parent: 0x51 }, TraceOpt { trace: 0x1D, sampled: true, remote_parent: 0x52 }];
            gs.max_len = if quick { 5 } else { 6 };
            b.add_gen(&gs, 1, &[false], &rules, 3_000_000);
            rule_text = format!("named multi-threaded scenarios x all schedules up to the preemption bound, plus {nconc} generated concurrent two-thread programs (operations moved to a second thread, hand-offs only where well-formedness needs them, preemptions <= 2), plus {n1} generated single-actor and {n2} two-actor lock-step programs x all placements of atomic collector cycles; an execution is non-trivial when a collector drain step falls between the first and the last queue command of the program");
            bound_text = format!("scenarios: preemptions <= {bound}, 2 collector cycles + final flush; generated: <= 3 spans, <= {} local spans, <= {} operations, <= {} cycles", g.max_locals, g.max_len, if quick { 1 } else { 2 });
            assumptions.push("wall-clock half of the statement: in the exploration the timer is abstracted to 'a cycle happens' (rule `prompt`); the library's own background thread is additionally observed free-running (report interval 10 ms, no flush(), 20 rounds, each round's spans must arrive within 20 intervals + 0.5 s; then the reporter is replaced while a worker finishes spans during the old reporter's tear-down, and the spans must reach the new reporter) - an observation, not an enumeration; it appears under coverage.external_engine".into());
            external = Some((std::env::current_exe().unwrap().to_string_lossy().to_string(), vec!["freerun".into(), "10".into()]));
        }
        "C03" => {
            let rules = [Rule::Liveness, Rule::NoPanic, Rule::Hold, Rule::NoExtra];
            let bound = if quick { 2 } else { 3 };
            for s in warm(&["S2", "S3", "S3b", "S4", "S5", "S5b", "S8", "S20"]) {
                b.add("SCHED", scenario(&s, 2).unwrap(), true, Some(bound), &rules, true);
            }
            let mut g = GenCfg::base("C03-seq");
            g.traces = vec![TraceOpt { trace: 0x3A, sampled: true, remote_parent: 0 }, TraceOpt { trace: 0x3B, sampled: true, remote_parent: 9 }];
            g.max_spans = 3;
            g.max_parents = 2;
            g.allow_scope = true;
            g.allow_child_local = true;
            g.finish_while_scoped = true;
            g.max_depth = 2;
            g.max_locals = if quick { 1 } else { 2 };
            g.max_len = if quick { 5 } else { 6 };
            let n1 = b.add_gen(&g, if quick { 1 } else { 2 }, &[true], &rules, 3_000_000);
            let mut g2 = g.clone();
            g2.name = "C03-2actors".into();
            g2.actors = 2;
            g2.max_switches = 2;
            g2.max_spans = 2;
            g2.max_locals = 1;
            g2.max_len = if quick { 4 } else { 5 };
            let n2 = b.add_gen(&g2, 1, &[true], &rules, 3_000_000);
            let mut gc = GenCfg::base("C03-conc");
            gc.traces = vec![TraceOpt { trace: 0xC31, sampled: true, remote_parent: 0 }, TraceOpt { trace: 0xC32, sampled: true, remote_parent: 9 }];
            gc.max_spans = 3;
            gc.max_parents = 2;
            gc.allow_scope = true;
            gc.max_depth = 1;
            gc.max_locals = 1;
            gc.max_len = if quick { 3 } else { 4 };
            let nconc = b.add_concurrent(&gc, &[true], 2, &rules, if quick { 1 } else { 2 });
            // two roots that carry the same trace id: each is held, committed and delivered on its own
            let mut gs = g.clone();
            gs.name = "C03-sameid".into();
            gs.traces = vec![TraceOpt { trace: 0x3D, sampled: true, remote_parent: 0x51 }, TraceOpt { trace: 0x3D, sampled: true, remote_parent: 0x52 }];
            b.add_gen(&gs, 1, &[true], &rules, 3_000_000);
            rule_text = format!("named multi-threaded scenarios (cancelable) x all schedules up to the preemption bound, plus {nconc} generated concurrent two-thread programs (preemptions <= 2), plus {n1} + {n2} generated programs x all placements of atomic collector cycles");
            bound_text = format!("scenarios: preemptions <= {bound}, 2 collector cycles + final flush; generated: <= 3 spans, <= {} operations", g.max_len);
        }
        "C04" => {
            let rules = [Rule::Liveness, Rule::NoPanic, Rule::Cancel, Rule::Hold, Rule::Deliver, Rule::Attach, Rule::NoExtra];
            let bound = if quick { 2 } else { 3 };
            for s in warm(&["S11", "S12", "S13", "S14", "S15", "S17"]) {
                for c in [true, false] {
                    b.add("SCHED", scenario(&s, 2).unwrap(), c, Some(bound), &rules, true);
                }
            }
            let mut g = GenCfg::base("C04-seq");
            g.traces = vec![TraceOpt { trace: 0x4A, sampled: true, remote_parent: 0 }, TraceOpt { trace: 0x4B, sampled: true, remote_parent: 9 }];
            g.max_spans = 3;
            g.max_parents = 2;
            g.allow_scope = true;
            g.allow_cancel = true;
            g.cancel_non_root = true;
            g.max_depth = 1;
            g.max_locals = 1;
            g.max_attach = 1;
            g.handle_attach = true;
            g.local_attach = true;
            g.max_len = if quick { 5 } else { 6 };
            let n1 = b.add_gen(&g, if quick { 1 } else { 2 }, &[true, false], &rules, 3_000_000);
            let mut gc = GenCfg::base("C04-conc");
            gc.traces = vec![TraceOpt { trace: 0xC41, sampled: true, remote_parent: 0 }, TraceOpt { trace: 0xC42, sampled: true, remote_parent: 9 }];
            gc.max_spans = if quick { 2 } else { 3 };
            gc.max_parents = 2;
            gc.allow_scope = !quick;
            gc.max_depth = 1;
            gc.max_locals = if quick { 0 } else { 1 };
            gc.allow_cancel = true;
            gc.max_parents = 1;
            gc.max_len = if quick { 3 } else { 4 };
            let nconc = b.add_concurrent(&gc, &[true, false], 2, &rules, if quick { 1 } else { 2 });
            // two roots that carry the same trace id: cancelling one leaves the other alone
            let mut gs = g.clone();
            gs.name = "C04-sameid".into();
            gs.max_attach = 0;
            gs.traces = vec![TraceOpt { trace: 0x4D, sampled: true, remote_parent: 0x51 }, TraceOpt { trace: 0x4D, sampled: true, remote_parent: 0x52 }];
            b.add_gen(&gs, 1, &[true, false], &rules, 3_000_000);
            for pr in overload_many_parked_programs() {
                b.add("SCHED", pr, true, Some(1), &rules, false);
            }
            // cancel() of one root while a span it shares with another root is the local parent
            for c in [true, false] {
                b.add_batch(cancel_in_scope_programs(), c, false, &rules);
            }
            // cancel() while the calling thread's command queue is full (the overload programs of
            // C09 that contain a cancel)
            // ... and the cancelled root finished by another thread after the cycle that emptied the ring
            for pr in overload_remote_finish_programs() {
                for c in [true, false] {
                    b.add("SCHED", pr.clone(), c, Some(1), &rules, false);
                }
            }
            let ring: Vec<Program> = overload_programs(if quick { 2 } else { 3 }).into_iter().filter(|p| p.actors[0].ops.iter().any(|o| matches!(o, Op::Cancel { .. }))).collect();
            let nring = ring.len();
            for pr in ring {
                b.add("SCHED", pr, true, Some(2), &rules, false);
            }
            let n1 = n1 + nring as u64;
            rule_text = format!("named cancel scenarios x both configurations x all schedules up to the preemption bound, plus {nconc} generated concurrent two-thread programs (preemptions <= 2), plus {n1} generated programs with cancel() at every position x all placements of atomic collector cycles x both configurations");
            bound_text = format!("scenarios: preemptions <= {bound}; generated: <= 3 spans, 1 local span, 1 attachment, <= {} operations", g.max_len);
        }
        "C06" => {
            let rules = [Rule::Liveness, Rule::NoPanic, Rule::Attach, Rule::AttachOrder, Rule::NoExtra];
            let bound = if quick { 2 } else { 3 };
            for s in warm(&["S19", "S19r", "S8", "S4"]) {
                for c in [true, false] {
                    b.add("SCHED", scenario(&s, 2).unwrap(), c, Some(bound), &rules, true);
                }
            }
            let mut g = GenCfg::base("C06-seq");
            // (a sampled and an unsampled trace: attachments made while an unsampled scope is open must
            // still reach sampled targets; multi-parent targets across sampled traces are in C06-multi)
            g.traces = vec![TraceOpt { trace: 0x6A, sampled: true, remote_parent: 0 }, TraceOpt { trace: 0x6B, sampled: false, remote_parent: 9 }];
            g.any_trace_order = true;
            g.max_spans = if quick { 2 } else { 3 };
            g.max_parents = 2;
            g.allow_scope = true;
            g.max_depth = 2;
            g.max_locals = 1;
            g.max_attach = if quick { 2 } else { 3 };
            g.handle_attach = true;
            g.local_attach = true;
            g.creation_props = true;
            g.max_len = if quick { 5 } else { 6 };
            let n1 = b.add_gen(&g, if quick { 1 } else { 2 }, &[true, false], &rules, 3_000_000);
            let mut g2 = g.clone();
            g2.name = "C06-2actors".into();
            g2.actors = 2;
            g2.max_switches = 2;
            g2.max_spans = 2;
            g2.max_depth = 1;
            g2.max_len = if quick { 3 } else { 5 };
            let n2 = b.add_gen(&g2, 1, &[true, false], &rules, 3_000_000);
            for c in [true, false] {
                b.add_batch(multi_parent_attach_programs().into_iter().map(|p| p.collector(if quick { 1 } else { 2 }, true, 0)).collect(), c, false, &rules);
            }
            for (i, prog) in string_programs().into_iter().enumerate() {
                for c in [true, false] {
                    let _ = i;
                    b.add("SEQ", prog.clone().collector(1, true, 0), c, None, &rules, false);
                }
            }
            let mut gc = GenCfg::base("C06-conc");
            gc.traces = vec![TraceOpt { trace: 0xC61, sampled: true, remote_parent: 0 }, TraceOpt { trace: 0xC62, sampled: true, remote_parent: 9 }];
            gc.max_spans = if quick { 2 } else { 3 };
            gc.max_parents = 2;
            gc.allow_scope = !quick;
            gc.max_depth = 1;
            gc.max_locals = if quick { 0 } else { 1 };
            gc.max_attach = if quick { 1 } else { 2 };
            gc.handle_attach = true;
            gc.local_attach = !quick;
            gc.max_parents = 1;
            gc.max_len = if quick { 3 } else { 4 };
            let nconc = b.add_concurrent(&gc, &[true, false], 2, &rules, if quick { 1 } else { 2 });
            // attachments made by calls whose property closure itself traces (eagerly, or lazily while
            // the library consumes the iterator it returned): the pairs belong to the call's own span
            for c in [false, true] {
                b.add_batch(reentrant_programs(), c, false, &rules);
            }
            let ls = local_sequence_programs(if quick { 5 } else { 6 });
            let nls = ls.len();
            for c in [false, true] {
                b.add_batch(ls.clone(), c, false, &rules);
            }
            rule_text = format!("{nls} well-nested sequences of local operations (enter / leave / property / event) in one scope; attachment scenarios x both configurations x all schedules up to the preemption bound, plus {nconc} generated concurrent two-thread programs (preemptions <= 2), plus {n1} + {n2} generated programs (attachments at creation, by handle, through the local parent) x all placements of atomic collector cycles, plus a string alphabet (empty, duplicate key, 2- and 4-byte UTF-8, 1 KiB) through every route");
            bound_text = format!("scenarios: preemptions <= {bound}; generated: <= {} spans, <= {} attachments, <= {} operations", g.max_spans, g.max_attach, g.max_len);
        }
        "C08" => {
            let rules = [Rule::Liveness, Rule::NoPanic, Rule::State];
            let bound = if quick { 2 } else { 3 };
            for s in warm(ALL_SCENARIOS) {
                for c in [true, false] {
                    b.add("SCHED", scenario(&s, 2).unwrap(), c, Some(bound), &rules, true);
                }
            }
            // traces started while the ring is full and ended on another thread
            for pr in overload_handoff_programs() {
                for c in [true, false] {
                    b.add("SCHED", pr.clone(), c, Some(2), &rules, false);
                }
            }
            let mut g = GenCfg::base("C08-seq");
            g.traces = vec![TraceOpt { trace: 0x8A, sampled: true, remote_parent: 0 }, TraceOpt { trace: 0x8B, sampled: true, remote_parent: 9 }];
            g.max_spans = 3;
            g.max_parents = 2;
            g.allow_scope = true;
            g.allow_cancel = true;
            g.finish_while_scoped = true;
            g.max_depth = 1;
            g.max_locals = 1;
            g.max_attach = 1;
            g.handle_attach = true;
            g.local_attach = true;
            g.max_len = if quick { 4 } else { 6 };
            let n1 = b.add_gen(&g, if quick { 1 } else { 2 }, &[true, false], &rules, 3_000_000);
            let mut g2 = g.clone();
            g2.name = "C08-2actors".into();
            g2.actors = 2;
            g2.max_switches = 2;
            g2.max_spans = 2;
            g2.max_len = if quick { 3 } else { 5 };
            let n2 = b.add_gen(&g2, 1, &[true, false], &rules, 3_000_000);
            let mut gc = GenCfg::base("C08-conc");
            gc.traces = vec![TraceOpt { trace: 0xC81, sampled: true, remote_parent: 0 }, TraceOpt { trace: 0xC82, sampled: true, remote_parent: 9 }];
            gc.max_spans = if quick { 2 } else { 3 };
            gc.max_parents = 2;
            gc.allow_scope = !quick;
            gc.max_depth = 1;
            gc.max_locals = if quick { 0 } else { 1 };
            gc.allow_cancel = true;
            gc.max_parents = 1;
            gc.max_len = if quick { 3 } else { 4 };
            let nconc = b.add_concurrent(&gc, &[true, false], 2, &rules, if quick { 1 } else { 2 });
            // finish / cancel signals issued while the queue is full must still release the trace's entry
            let ring: Vec<Program> = overload_programs(2).into_iter().filter(|p| p.actors[0].ops.iter().any(|o| matches!(o, Op::Finish { slot: 0 } | Op::Cancel { .. }))).step_by(if quick { 3 } else { 1 }).collect();
            for pr in ring {
                for c in [true, false] {
                    b.add("SCHED", pr.clone(), c, Some(if quick { 1 } else { 2 }), &rules, false);
                }
            }
            rule_text = format!("all named scenarios x both configurations x all schedules up to the preemption bound, plus {nconc} generated concurrent two-thread programs (preemptions <= 2), plus {n1} + {n2} generated histories of trace starts / finishes / cancels / attachments / thread exits x all placements of atomic collector cycles x both configurations");
            bound_text = format!("scenarios: preemptions <= {bound}, 2 collector cycles + final flush; generated: <= 3 spans, <= {} operations", g.max_len);
        }
        "C02" => {
            let rules = [Rule::Liveness, Rule::NoPanic, Rule::Tree, Rule::NoExtra, Rule::Deliver, Rule::Hold];
            let mut g = GenCfg::base("C02-tree");
            g.traces = vec![
                TraceOpt { trace: 0xA1, sampled: true, remote_parent: 0 },
                TraceOpt { trace: 0xB2_0000_0000_0000_0000_0000_0000_0001, sampled: true, remote_parent: 0x7700_0000_0000_0077 },
            ];
            g.max_spans = 3;
            g.max_parents = 2;
            g.ordered_parents = !quick;
            g.dup_parent = !quick;
            g.allow_scope = true;
            g.allow_child_local = true;
            g.max_depth = 2;
            g.max_locals = if quick { 1 } else { 3 };
            g.max_len = if quick { 5 } else { 6 };
            g.allow_noop = !quick;
            // (attachments change the scope's "innermost open local span" bookkeeping)
            g.local_attach = true;
            g.max_attach = 1;
            let n1 = b.add_gen(&g, 1, &[false, true], &rules, 2_000_000);
            // two actors in lock-step: spans created, scoped and finished on either thread
            let mut g2 = g.clone();
            g2.name = "C02-2actors".into();
            g2.actors = 2;
            g2.max_switches = 2;
            g2.max_len = if quick { 4 } else { 5 };
            g2.max_locals = 1;
            g2.max_spans = 2;
            g2.allow_noop = false;
            let n2 = b.add_gen(&g2, 1, &[false, true], &rules, 2_000_000);
            // parent lists in every order, with a no-op span and duplicates among the parents
            let mut g3 = GenCfg::base("C02-parents");
            g3.traces = g.traces.clone();
            g3.max_spans = 4;
            g3.max_parents = 3;
            g3.ordered_parents = true;
            g3.dup_parent = true;
            g3.allow_noop = true;
            g3.max_len = if quick { 4 } else { 5 };
            let n3 = b.add_gen(&g3, if quick { 0 } else { 1 }, &[false, true], &rules, 2_000_000);
            // scopes of unsampled spans nested in sampled ones (and the reverse): nothing recorded
            // inside may surface under the enclosing scope
            let mut g4 = GenCfg::base("C02-unsampled-scopes");
            g4.traces = vec![TraceOpt { trace: 0xA1, sampled: true, remote_parent: 0 }, TraceOpt { trace: 0xC3, sampled: false, remote_parent: 5 }];
            g4.any_trace_order = true;
            g4.max_spans = 3;
            g4.allow_scope = true;
            g4.allow_child_local = true;
            g4.allow_lc = true;
            g4.max_sets = 1;
            g4.max_depth = 2;
            g4.max_locals = 1;
            g4.max_len = if quick { 5 } else { 6 };
            let n4 = b.add_gen(&g4, if quick { 0 } else { 1 }, &[false, true], &rules, 2_000_000);
            let n1 = n1 + n4;
            let n1 = n1 + n3;
            b.add_batch(many_ids_programs(), false, false, &rules);
            // the tree around a full scope: spans refused with and without a local span open, then
            // local spans, thread-safe children and events after them
            let mut lp_rules = rules.to_vec();
            lp_rules.push(Rule::Ctx);
            b.add_batch(local_limit_programs(), false, false, &lp_rules);
            // every well-nested sequence of local operations with two or more local spans and an attachment
            let lt = local_tree_programs(if quick { 5 } else { 6 });
            for c in [false, true] {
                b.add_batch(lt.clone(), c, false, &rules);
            }
            rule_text = format!("bounded-exhaustive generated programs ({n1} single-actor + {n2} two-actor lock-step) x every placement of 1 atomic collector cycle at a ring-push boundary x both configurations; non-trivial: a collector cycle falls between the first and last queue command");
            bound_text = format!("<= {} spans, <= {} local spans, scope depth <= 2, <= {} operations; 1 cycle placed anywhere + final flush", g.max_spans, g.max_locals, g.max_len);
        }
        "C05" => {
            let rules = [Rule::Liveness, Rule::NoPanic, Rule::NoExtra, Rule::Deliver, Rule::Hold, Rule::Ctx, Rule::Attach, Rule::Tree];
            let mut g = GenCfg::base("C05");
            g.traces = vec![
                TraceOpt { trace: 0x5A, sampled: true, remote_parent: 0 },
                TraceOpt { trace: 0x5B, sampled: false, remote_parent: 0x55 },
            ];
            g.any_trace_order = true;
            g.max_spans = 3;
            g.max_parents = 2;
            g.ordered_parents = true;
            g.allow_scope = true;
            g.allow_child_local = true;
            g.max_depth = 2;
            g.max_locals = 1;
            g.max_attach = 1;
            g.handle_attach = true;
            g.local_attach = true;
            g.observe = true;
            g.max_len = if quick { 5 } else { 6 };
            let n1 = b.add_gen(&g, 1, &[false, true], &rules, 3_000_000);
            let mut g2 = g.clone();
            g2.name = "C05-lc".into();
            g2.allow_lc = true;
            g2.max_sets = 1;
            g2.max_spans = 2;
            g2.max_attach = 1;
            g2.max_len = if quick { 6 } else { 7 };
            g2.handle_attach = false;
            g2.max_depth = 1;
            let n2 = b.add_gen(&g2, 1, &[false], &rules, 3_000_000);
            let mut g3 = g.clone();
            g3.name = "C05-2actors".into();
            g3.actors = 2;
            g3.max_switches = 1;
            g3.max_len = if quick { 4 } else { 5 };
            g3.observe = true;
            let n3 = b.add_gen(&g3, 1, &[false], &rules, 3_000_000);
            // captured sets pushed to spans with sampled and unsampled parents (and converted directly)
            for c in [false, true] {
                b.add_batch(late_push_programs().into_iter().map(|p| p.collector(1, true, 0)).collect(), c, false, &rules);
            }
            rule_text = format!("generated programs mixing a sampled and an unsampled root with descendants through every path ({n1} + {n2} with detached sets + {n3} two-actor), context observed after every operation, x every placement of 1 collector cycle x configurations");
            bound_text = format!("<= 3 spans, 1 local span, 1 attachment, scope depth <= 2, <= {} operations", g.max_len);
        }
        "C10" => {
            let rules = [Rule::Liveness, Rule::NoPanic, Rule::Ctx, Rule::Tree, Rule::Attach, Rule::NoExtra, Rule::Deliver];
            // scopes on a thread that has opened 70000 scopes before
            b.add_batch(many_ids_programs().into_iter().filter(|p| p.name.contains("long-lived")).collect(), false, false, &rules);
            let mut g = GenCfg::base("C10");
            g.traces = vec![TraceOpt { trace: 0x10A, sampled: true, remote_parent: 0 }, TraceOpt { trace: 0x10B, sampled: false, remote_parent: 0 }];
            g.any_trace_order = true;
            g.max_spans = 2;
            g.allow_scope = true;
            g.allow_lc = true;
            g.max_sets = 2;
            g.max_depth = if quick { 3 } else { 4 };
            g.max_locals = if quick { 2 } else { 3 };
            g.max_len = if quick { 6 } else { 8 };
            g.observe = true;
            g.probe = true;
            g.allow_inert_local = true;
            g.allow_child_local = false;
            let n1 = b.add_gen(&g, 0, &[false], &rules, 3_000_000);
            let mut g2 = g.clone();
            g2.name = "C10-2actors".into();
            g2.actors = 2;
            g2.max_switches = 2;
            g2.max_len = if quick { 4 } else { 5 };
            let n2 = b.add_gen(&g2, 0, &[false], &rules, 3_000_000);
            rule_text = format!("all well-nested sequences of scope-opening/closing operations ({n1} single-actor, {n2} two-actor) with the local context observed and probed (child span + local event) after every operation");
            bound_text = format!("scope depth <= {}, <= {} local spans, <= {} operations", g.max_depth, g.max_locals, g.max_len);
        }
        "C11" => {
            let rules = [Rule::Liveness, Rule::NoPanic, Rule::Ctx, Rule::Tree, Rule::NoExtra, Rule::Deliver];
            b.add_batch(noop_parents_programs(), false, false, &rules);
            let mut g = GenCfg::base("C11");
            g.traces = vec![
                TraceOpt { trace: u128::MAX, sampled: true, remote_parent: u64::MAX },
                TraceOpt { trace: 1u128 << 127, sampled: false, remote_parent: 1 },
            ];
            g.any_trace_order = true;
            // boundary trace ids for the extracted contexts: all-ones / top bit above, zero and one here
            let mut gz = GenCfg::base("C11-zero");
            gz.traces = vec![TraceOpt { trace: 0, sampled: true, remote_parent: 0 }, TraceOpt { trace: 1, sampled: false, remote_parent: u64::MAX }];
            gz.any_trace_order = true;
            gz.max_spans = 3;
            gz.allow_scope = true;
            gz.max_depth = 1;
            gz.observe = true;
            gz.remote_children = true;
            gz.max_len = if quick { 3 } else { 4 };
            let nz = b.add_gen(&gz, 0, &[false], &rules, 3_000_000);
            g.max_spans = if quick { 3 } else { 4 };
            g.max_parents = 2;
            g.ordered_parents = true;
            g.allow_scope = true;
            g.allow_child_local = true;
            g.allow_noop = true;
            g.max_depth = 2;
            g.max_locals = 1;
            g.observe = true;
            g.remote_children = true;
            g.max_len = if quick { 5 } else { 6 };
            let n1 = b.add_gen(&g, 0, &[false], &rules, 3_000_000);
            let n1 = n1 + nz;
            rule_text = format!("{n1} generated programs; from_span / current_local_parent observed after every operation; remote child roots created from extracted contexts directly and through the traceparent codec");
            bound_text = format!("<= {} spans, scope depth <= 2, 1 local span, <= {} operations", g.max_spans, g.max_len);
        }
        "C17" => {
            let rules = [Rule::Liveness, Rule::NoPanic, Rule::Sets, Rule::Tree, Rule::NoExtra, Rule::Deliver, Rule::Attach, Rule::Times];
            let mut g = GenCfg::base("C17");
            g.traces = vec![TraceOpt { trace: 0x17A, sampled: true, remote_parent: 0 }, TraceOpt { trace: 0x17B, sampled: true, remote_parent: 7 }];
            g.max_spans = 3;
            g.allow_lc = true;
            g.max_sets = 1;
            g.max_depth = 1;
            g.max_locals = if quick { 2 } else { 3 };
            g.max_attach = if quick { 1 } else { 2 };
            g.local_attach = true;
            g.creation_props = true;
            g.to_records = true;
            g.allow_inert_local = false;
            g.max_len = if quick { 6 } else { 8 };
            let n1 = b.add_gen(&g, 1, &[false, true], &rules, 3_000_000);
            let lp = late_push_programs();
            let n1 = n1 + lp.len() as u64;
            for c in [false, true] {
                b.add_batch(lp.iter().map(|p| p.clone().collector(if quick { 1 } else { 2 }, true, 0)).collect(), c, false, &rules);
            }
            rule_text = format!("{n1} generated programs: captured local-span forests (open or closed spans, attachments) pushed to up to 3 parents in 2 traces and converted with to_span_records, x 1 collector cycle anywhere x both configurations");
            bound_text = format!("<= {} captured local spans, <= {} attachments, <= 3 parents, <= {} operations", g.max_locals, g.max_attach, g.max_len);
        }
        "C18" => {
            let rules = [Rule::Liveness, Rule::NoPanic, Rule::Times, Rule::Elapsed, Rule::Deliver, Rule::NoExtra];
            let mut g = GenCfg::base("C18");
            g.traces = vec![TraceOpt { trace: 0x18A, sampled: true, remote_parent: 0 }, TraceOpt { trace: 0x18B, sampled: false, remote_parent: 0 }];
            g.any_trace_order = true;
            g.max_parents = 2;
            g.ordered_parents = true;
            g.max_spans = if quick { 3 } else { 4 };
            g.allow_scope = true;
            g.allow_lc = true;
            g.max_sets = 1;
            g.max_depth = 2;
            g.max_locals = 3;
            g.max_attach = 1;
            g.local_attach = true;
            g.handle_attach = true;
            g.elapsed = true;
            g.collect_open = true;
            g.busy_wait_us = 150;
            g.max_len = if quick { 5 } else { 6 };
            let mut n1 = b.add_gen(&g, 1, &[false], &rules, 3_000_000);
            if !quick {
                // two cycles anywhere, one operation shorter (the longer programs with two cycles
                // do not fit the hour this tier is given)
                let mut g5 = g.clone();
                g5.name = "C18-2cycles".into();
                g5.max_len = 5;
                n1 += b.add_gen(&g5, 2, &[false], &rules, 3_000_000);
            }
            // spans and local spans that stay open for more than a second
            b.add_batch(long_span_programs(), false, false, &rules);
            // captured sets with local spans still open at collect(), converted and pushed
            b.add_batch(late_push_programs().into_iter().map(|p| p.collector(1, true, 0)).collect(), false, false, &rules);
            rule_text = format!("{n1} generated programs with a 150us busy-wait before every operation and harness-side clock brackets around every operation, x collector cycles anywhere");
            bound_text = format!("<= 2 spans, <= 3 local spans, nesting <= 3, <= {} operations", g.max_len);
            assumptions.push("the clock itself is not enumerated (it never influences control flow); durations are compared with harness-side monotonic brackets (tolerance 30us + 0.2%), begin times with wall-clock brackets +-10ms".into());
        }
        "C13" | "C14" => {
            let rules = [Rule::Liveness, Rule::NoPanic, Rule::Ctx, Rule::Deliver, Rule::Hold, Rule::Prompt, Rule::NoExtra, Rule::Tree, Rule::Attach];
            let progs = if property == "C13" { future_programs(!quick) } else { stream_sink_programs(!quick) };
            let n = progs.len();
            let cycles = if quick { 1 } else { 2 };
            let mut batches: Vec<Vec<Program>> = Vec::new();
            for (i, pr) in progs.into_iter().enumerate() {
                if i % 40 == 0 {
                    batches.push(Vec::new());
                }
                batches.last_mut().unwrap().push(pr.collector(cycles, true, 0));
            }
            for programs in batches {
                for c in [false, true] {
                    let id = b.jobs.len();
                    b.jobs.push(Job {
                        id,
                        programs: programs.clone(),
                        cancelable: c,
                        no_reporter: false,
                        bound: None,
                        rules: rules.iter().map(|r| rule_name(*r).to_string()).collect(),
                        max_execs: 500_000,
                        prefix: vec![],
                        expand_only: false,
                        engine: "SEQ".into(),
                probe: None,
                    });
                }
            }
            rule_text = format!("{n} adapter programs (poll counts, polling thread per poll, drop at every point, nesting, enter_on_poll) x every placement of {cycles} atomic collector cycle(s) at queue-push boundaries x both configurations; the local context is observed before, inside and after every call");
            bound_text = format!("<= {} polls / calls, 2 threads, {cycles} cycle(s)", if quick { 2 } else { 3 });
        }
        "C09" => {
            let rules = [Rule::Liveness, Rule::NoPanic, Rule::Deliver, Rule::Hold, Rule::Cancel, Rule::NoExtra, Rule::Tree, Rule::Attach, Rule::State];
            let bound = if quick { 2 } else { 3 };
            let progs = overload_programs(if quick { 2 } else { 3 });
            let n1 = progs.len();
            for pr in progs {
                for c in [true, false] {
                    b.add("SCHED", pr.clone(), c, Some(bound), &rules, false);
                }
            }
            for pr in overload_many_parked_programs() {
                for c in [true, false] {
                    b.add("SCHED", pr.clone(), c, Some(1), &rules, false);
                }
            }
            // cancel parked with a full ring, the root finished by a second thread after the drain and
            // after at least one further command of the cancelling thread (the 0-command variants are
            // C04's: known finding K3)
            for pr in overload_remote_finish_programs().into_iter().filter(|p| p.name.starts_with("C04-ring-remote-finish")) {
                for c in [true, false] {
                    b.add("SCHED", pr.clone(), c, Some(1), &rules, false);
                }
            }
            let lp = local_limit_programs();
            let n2 = lp.len();
            let mut lp_rules = rules.to_vec();
            lp_rules.push(Rule::Ctx);
            for pr in lp {
                b.add("SEQ", pr, false, None, &lp_rules, false);
            }
            rule_text = format!("{n1} queue-full episodes (real 10240-slot ring filled leaving 0/1/2 free slots, then every sequence of operations from {{finish child, end scope, cancel, finish root, new trace, attach}}, recovery interleaved with the collector's first pops, a fresh trace after the drain) x both configurations x all schedules up to the preemption bound; {n2} per-scope span-limit programs");
            bound_text = format!("<= {} operations during the episode, preemptions <= {bound}, collector yields at its first 3 pops and between receivers", if quick { 2 } else { 3 });
        }
        "C07" => {
            let rules = [Rule::Liveness, Rule::NoPanic];
            // (a) hostile alphabet: every call in every "odd" state, sequences of <= 3 (4) calls
            let mut g = GenCfg::base("C07-hostile");
            g.traces = vec![
                TraceOpt { trace: 0x7A, sampled: true, remote_parent: 0 },
                TraceOpt { trace: 0x7B, sampled: false, remote_parent: 0 },
            ];
            g.any_trace_order = true;
            g.max_spans = 3;
            g.max_parents = 2;
            g.dup_parent = true;
            g.allow_noop = true;
            g.allow_inert_local = true;
            g.allow_scope = true;
            g.allow_lc = true;
            g.max_sets = 1;
            g.max_depth = 2;
            g.max_locals = 2;
            g.max_attach = 2;
            g.handle_attach = true;
            g.local_attach = true;
            g.creation_props = true;
            g.allow_cancel = true;
            g.cancel_non_root = true;
            g.allow_child_local = true;
            g.finish_while_scoped = true;
            g.observe = true;
            g.remote_children = true;
            g.elapsed = true;
            g.to_records = true;
            g.max_len = if quick { 3 } else { 4 };
            let mut progs = Vec::new();
            generate(&g, 3_000_000, &mut |p| {
                progs.push(p.collector(0, true, 0));
                true
            });
            let n1 = progs.len();
            b.add_batch(progs.clone(), false, false, &rules);
            b.add_batch(progs.clone(), true, false, &rules);
            b.add_batch(progs, false, true, &rules);
            // (b) calls issued from inside property closures
            let re = reentrant_programs();
            let n2 = re.len();
            b.add_batch(re.clone(), false, false, &rules);
            b.add_batch(re, false, true, &rules);
            // (c) limits: scope stack, per-scope span limit, full ring
            let lim = limit_programs();
            let n3 = lim.len();
            b.add_batch(lim, false, false, &rules);
            b.add_batch(noop_parents_programs(), false, false, &rules);
            // (d) calls from thread-local destructors
            let td = teardown_programs();
            let n4 = td.len();
            b.add_batch(td.clone(), false, false, &rules);
            b.add_batch(td, false, true, &rules);
            // (e) blocking: no worker step is ever disabled by a collector parked mid-cycle other
            // than receiver registration during a drain; a hang or deadlock fails the liveness rule
            let bound = if quick { 2 } else { 3 };
            for s in warm(&["S3", "S4", "S7", "S13", "S19"]) {
                for c in [true, false] {
                    b.add("SCHED", scenario(&s, 2).unwrap(), c, Some(bound), &rules, true);
                }
            }
            // an instrumented reporter: report() itself traces (on the collector's thread)
            for s in ["S1+rt", "S3+w+rt", "S7+rt"] {
                b.add("SCHED", scenario(s, 2).unwrap(), false, Some(bound), &rules, true);
            }
            // set_reporter called again while a cycle is in progress, while report() runs (also a
            // report() that traces), and while another thread makes its first tracing call
            for s in ["SR1", "SR1+w", "SR1+rt", "SR2", "SR2+w", "SR2+rt"] {
                for c in [false, true] {
                    b.add("SCHED", scenario(s, 1).unwrap(), c, Some(2), &rules, true);
                }
            }
            rule_text = format!("{n1} hostile call sequences (no-op / unsampled / all-no-op parents / no local parent / under a local collector / re-used contexts) in three process states (no reporter, default, cancelable); {n2} re-entrant programs (every closure-taking call x calls issued from inside the closure); {n3} limit programs (4096 scopes, 10240 local spans, full ring); {n4} thread-teardown programs (calls from thread-local destructors registered before/after fastrace's own thread-locals, thread traced before or not); multi-threaded scenarios with the collector parked at each of its points; set_reporter called again at every point of a cycle (an actor that waits for a mutex inside that call is left waiting for real while the others are scheduled)");
            bound_text = format!("call sequences <= {}; scenarios: preemptions <= {bound}", g.max_len);
            assumptions.push("harness built with debug assertions and overflow checks on (as the test suite's dev profile); a call that does not return within 5 s counts as blocked".into());
        }
        "C16" => {
            let rules = [Rule::Liveness, Rule::NoPanic, Rule::Lazy, Rule::Elapsed, Rule::Ctx, Rule::NoExtra, Rule::Deliver];
            b.add_batch(noop_parents_programs(), false, false, &rules);
            b.add_batch(noop_parents_programs(), false, true, &rules);
            let mut g = GenCfg::base("C16-nonrecording");
            g.traces = vec![TraceOpt { trace: 0x16A, sampled: true, remote_parent: 0 }, TraceOpt { trace: 0x16B, sampled: false, remote_parent: 3 }];
            g.any_trace_order = true;
            g.max_spans = 3;
            g.max_parents = 2;
            g.dup_parent = true;
            g.allow_noop = true;
            g.allow_inert_local = true;
            g.allow_scope = true;
            g.allow_lc = true;
            g.max_sets = 1;
            g.max_depth = 2;
            g.max_locals = 2;
            g.max_attach = 2;
            g.handle_attach = true;
            g.local_attach = true;
            g.creation_props = true;
            g.allow_child_local = true;
            g.observe = true;
            g.elapsed = true;
            g.to_records = true;
            g.max_len = if quick { 4 } else { 5 };
            let mut progs = Vec::new();
            generate(&g, 3_000_000, &mut |p| {
                progs.push(p.collector(0, true, 0));
                true
            });
            let n1 = progs.len();
            b.add_batch(progs.clone(), false, false, &rules);
            // the same programs in a process that never installs a reporter: nothing records
            b.add_batch(progs, false, true, &rules);
            // spans created before the reporter exists, used and finished after it was installed
            let id = b.jobs.len();
            b.jobs.push(Job {
                id,
                programs: vec![],
                cancelable: false,
                no_reporter: true,
                bound: None,
                rules: vec![],
                max_execs: 1,
                prefix: vec![],
                expand_only: false,
                engine: "SEQ".into(),
                probe: Some("late-reporter".into()),
            });
            rule_text = format!("enabled build: {n1} generated call sequences over no-op-derived spans, scope-less local operations and ordinary spans, every closure counted, run with a reporter and in a process without one, plus a probe that creates spans before the reporter is installed and uses them afterwards; disabled build (fastrace without `enable`): all call sequences up to length {} over 30 public operations", if quick { 3 } else { 4 });
            bound_text = format!("enabled: <= {} operations; disabled: sequences <= {}", g.max_len, if quick { 3 } else { 4 });
            external = Some((format!("{}/target-disabled/release/vx-disabled", crate::check::verif_root()), vec![(if quick { "3" } else { "4" }).to_string()]));
        }
        _ => return None,
    }
    // the universal family under this property's rules
    let u_configs: &[bool] = match property {
        "C01" | "C10" | "C11" | "C18" => &[false],
        "C03" => &[true],
        "C02" | "C04" | "C05" | "C06" | "C08" | "C17" => &[true, false],
        _ => &[],
    };
    let mut rule_text = rule_text;
    if !u_configs.is_empty() {
        // the rules of the property's SEQ jobs (scenario jobs come first and use the same set)
        let rules: Vec<Rule> = b.jobs.iter().find(|j| j.engine == "SEQ").or(b.jobs.first()).map(|j| j.rules.iter().map(|r| rule_of(r)).collect()).unwrap_or_default();
        let mut u = universal(quick);
        if property == "C18" {
            u.busy_wait_us = 150;
        }
        let cycles = if property == "C10" || property == "C11" { 0 } else { 1 };
        let nu = b.add_gen(&u, cycles, u_configs, &rules, 3_000_000);
        // larger configurations (more threads, spans, parents, nesting, traces per cycle, quiet cycles)
        for &c in u_configs {
            // the multi-threaded ones: hand-offs fix most of their order; preemption bound 1
            let (threaded, big): (Vec<Program>, Vec<Program>) = big_programs().into_iter().partition(|p| p.actors.iter().filter(|a| matches!(a.kind, ActorKind::Worker)).count() > 1);
            for p in threaded {
                b.add("SCHED", p, c, Some(1), &rules, false);
            }
            b.add_batch(big, c, false, &rules);
        }
        rule_text = format!("{rule_text}; plus the universal family: {nu} programs over the whole operation alphabet (<= {} operations) x {cycles} cycle placement(s)", u.max_len);
    }
    let exhaustive_claim = b.gen_capped.is_empty();
    if !exhaustive_claim {
        assumptions.push(format!("NOT exhaustive at the stated bound: the program limit of the generator was reached for {}", b.gen_capped.join(", ")));
    }
    Some(CheckSpec {
        property: property.into(),
        tier: tier.into(),
        level: "model_checking".into(),
        jobs: b.jobs,
        split: b.split,
        rule_text,
        assumptions,
        bound_text,
        exhaustive_claim,
        external,
        wall_cap: Duration::from_secs(if quick { 120 } else { 3600 }),
    })
}
