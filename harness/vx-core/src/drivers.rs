//! Drivers: the programs each property's check explores, with bounds and oracle rules.

use serde::Deserialize;
use serde::Serialize;

use crate::oracle::Rule;
use crate::program::*;

#[derive(Debug, Clone, Serialize, Deserialize)]
pub struct Job {
    pub id: usize,
    /// the programs of this job (one for a split schedule tree, a batch for generated programs)
    pub programs: Vec<Program>,
    pub cancelable: bool,
    /// run in a process that never installs a reporter
    #[serde(default)]
    pub no_reporter: bool,
    /// preemption bound; None = all interleavings
    pub bound: Option<u32>,
    pub rules: Vec<String>,
    pub max_execs: u64,
    /// explore only the subtree below this prefix
    pub prefix: Vec<u32>,
    /// only run the prefix and report the alternatives below it (used to split work)
    pub expand_only: bool,
    /// which engine family the job belongs to (evidence)
    pub engine: String,
    /// a special-purpose routine instead of programs ("late-reporter")
    #[serde(default)]
    pub probe: Option<String>,
}

pub fn rule_name(r: Rule) -> &'static str {
    match r {
        Rule::Liveness => "liveness",
        Rule::NoPanic => "no-panic",
        Rule::Deliver => "deliver",
        Rule::Prompt => "prompt",
        Rule::NoExtra => "no-extra",
        Rule::Tree => "tree",
        Rule::Hold => "hold",
        Rule::Cancel => "cancel",
        Rule::Attach => "attach",
        Rule::AttachOrder => "attach-order",
        Rule::State => "state",
        Rule::Ctx => "ctx",
        Rule::Lazy => "lazy",
        Rule::Elapsed => "elapsed",
        Rule::Times => "times",
        Rule::Sets => "sets",
        Rule::Polls => "polls",
    }
}

pub fn rule_of(s: &str) -> Rule {
    for r in [
        Rule::Liveness,
        Rule::NoPanic,
        Rule::Deliver,
        Rule::Prompt,
        Rule::NoExtra,
        Rule::Tree,
        Rule::Hold,
        Rule::Cancel,
        Rule::Attach,
        Rule::AttachOrder,
        Rule::State,
        Rule::Ctx,
        Rule::Lazy,
        Rule::Elapsed,
        Rule::Times,
        Rule::Sets,
        Rule::Polls,
    ] {
        if rule_name(r) == s {
            return r;
        }
    }
    panic!("unknown rule {s}")
}

// ---------- op constructors ----------

pub fn root(slot: u32, name: &str, trace: u128) -> Op {
    Op::Root { slot, name: name.into(), trace: U128(trace), remote_parent: 0, sampled: true, props: vec![] }
}
pub fn root_full(slot: u32, name: &str, trace: u128, remote_parent: u64, sampled: bool, props: Props) -> Op {
    Op::Root { slot, name: name.into(), trace: U128(trace), remote_parent, sampled, props }
}
pub fn child(slot: u32, name: &str, parent: u32) -> Op {
    Op::Child { slot, name: name.into(), parents: vec![parent], single: true, props: vec![] }
}
pub fn child_of(slot: u32, name: &str, parents: &[u32]) -> Op {
    Op::Child { slot, name: name.into(), parents: parents.to_vec(), single: false, props: vec![] }
}
pub fn lchild(slot: u32, name: &str) -> Op {
    Op::ChildLocal { slot, name: name.into(), props: vec![] }
}
pub fn finish(slot: u32) -> Op {
    Op::Finish { slot }
}
pub fn scope(slot: u32) -> Op {
    Op::SetLocalParent { slot }
}
pub fn lenter(name: &str) -> Op {
    Op::LocalEnter { name: name.into(), props: vec![] }
}
pub fn pop() -> Op {
    Op::Pop
}
pub fn sig(f: u32) -> Op {
    Op::Signal(f)
}
pub fn wait(f: u32) -> Op {
    Op::Wait(f)
}
pub fn addprop(slot: u32, k: &str, v: &str) -> Op {
    Op::AddProps { slot, props: p(k, v) }
}
pub fn addevent(slot: u32, name: &str) -> Op {
    Op::AddEvent { slot, name: name.into(), props: vec![] }
}
pub fn lprop(k: &str, v: &str) -> Op {
    Op::LocalAddProps { props: p(k, v) }
}
pub fn levent(name: &str) -> Op {
    Op::LocalAddEvent { name: name.into(), props: vec![] }
}
pub fn cancel(slot: u32) -> Op {
    Op::Cancel { slot }
}

// ---------- named multi-threaded scenarios ----------

/// `cycles` collector cycles that yield between receivers and at the empty/abandoned check.
pub fn scenario(full_name: &str, cycles: usize) -> Option<Program> {
    let p = Program::new(full_name);
    // "<name>+w": every worker thread has used its command queue before (thread-pool thread)
    // "<name>+rt": the reporter itself traces from inside report()
    let base = full_name.strip_suffix("+rt").unwrap_or(full_name);
    let (name, warm) = match base.strip_suffix("+w") {
        Some(n) => (n, true),
        None => (base, false),
    };
    let mut pr = match name {
        // worker creates a root, finishes it, exits at once
        "S1" => p.worker("A", vec![root(0, "r", 1), finish(0)]),
        // root created on A, handed to B, finished there
        "S2" => p.worker("A", vec![root(0, "r", 1), sig(1)]).worker("B", vec![wait(1), finish(0)]),
        // child handed to B and finished there while A finishes the root
        "S3" => p
            .worker("A", vec![root(0, "r", 1), child(1, "c", 0), sig(1), finish(0)])
            .worker("B", vec![wait(1), finish(1)]),
        // child finished on B, then (hand-off) the root on A
        "S3b" => p
            .worker("A", vec![root(0, "r", 1), child(1, "c", 0), sig(1), wait(2), finish(0)])
            .worker("B", vec![wait(1), finish(1), sig(2)]),
        // local scope, local span, child span and root on one thread
        "S4" => p.worker(
            "A",
            vec![root(0, "r", 1), scope(0), lenter("l"), pop(), lchild(1, "c"), finish(1), pop(), finish(0)],
        ),
        // multi-parent child of two traces finished on another actor
        "S5" => p
            .worker(
                "A",
                vec![root(0, "r1", 1), root(1, "r2", 2), child_of(2, "m", &[0, 1]), sig(1), finish(0), finish(1)],
            )
            .worker("B", vec![wait(1), finish(2)]),
        // multi-parent child finished on B before both roots finish on A
        "S5b" => p
            .worker(
                "A",
                vec![root(0, "r1", 1), root(1, "r2", 2), child_of(2, "m", &[0, 1]), sig(1), wait(2), finish(0), finish(1)],
            )
            .worker("B", vec![wait(1), finish(2), sig(2)]),
        // a program-level flush() racing with a cycle
        "S7" => p.worker("A", vec![root(0, "r", 1), finish(0), sig(1)]).worker("M", vec![wait(1), Op::Flush]),
        // local scope on B ends, then the root finishes on A
        "S8" => p
            .worker("A", vec![root(0, "r", 1), sig(1), wait(2), finish(0)])
            .worker("B", vec![wait(1), scope(0), lenter("l"), pop(), pop(), sig(2)]),
        // attachment by handle on B, ordered before the finish of the target on A
        "S19" => p
            .worker("A", vec![root(0, "r", 1), child(1, "c", 0), sig(1), wait(2), finish(1), finish(0)])
            .worker("B", vec![wait(1), addprop(1, "k", "v"), addevent(1, "e"), sig(2)]),
        // attachment by handle on B to the root itself
        "S19r" => p
            .worker("A", vec![root(0, "r", 1), sig(1), wait(2), finish(0)])
            .worker("B", vec![wait(1), addprop(0, "k", "v"), sig(2)]),
        // child handed to B right after the root was created on A and finished there at once
        "S20" => p
            .worker("A", vec![root(0, "r", 1), child(1, "c", 0), sig(1), wait(2), finish(0)])
            .worker("B", vec![wait(1), finish(1), sig(2)]),
        // cancel, then finish, same actor
        "S11" => p.worker("A", vec![root(0, "r", 1), child(1, "c", 0), finish(1), cancel(0), finish(0)]),
        // cancel on A, root handed to B and finished there
        "S12" => p.worker("A", vec![root(0, "r", 1), cancel(0), sig(1)]).worker("B", vec![wait(1), finish(0)]),
        // cancel while a child is in flight on B
        "S13" => p
            .worker("A", vec![root(0, "r", 1), child(1, "c", 0), sig(1), cancel(0), finish(0)])
            .worker("B", vec![wait(1), finish(1)]),
        // multi-parent child shared by cancelled X and live Y
        "S14" => p
            .worker(
                "A",
                vec![root(0, "x", 1), root(1, "y", 2), child_of(2, "m", &[0, 1]), sig(1), cancel(0), finish(0), wait(2), finish(1)],
            )
            .worker("B", vec![wait(1), finish(2), sig(2)]),
        // one LocalSpans set pushed to X and Y, X cancelled
        "S15" => p.worker(
            "A",
            vec![
                Op::LcStart,
                lenter("l"),
                pop(),
                Op::LcCollect { set: 0 },
                root(0, "x", 1),
                root(1, "y", 2),
                Op::PushChildSpans { set: 0, slot: 0 },
                Op::PushChildSpans { set: 0, slot: 1 },
                Op::DropSet { set: 0 },
                cancel(0),
                finish(0),
                finish(1),
            ],
        ),
        // cancel on a child and on a no-op span
        "S17" => p.worker(
            "A",
            vec![root(0, "r", 1), child(1, "c", 0), Op::Noop { slot: 2 }, cancel(1), cancel(2), finish(2), finish(1), finish(0)],
        ),
        // set_reporter called again while spans are open and the collector is at work
        "SR1" => p.worker("A", vec![root(0, "r", 1), Op::SetReporter, finish(0)]).worker("B", vec![root(1, "q", 2), finish(1)]),
        // ... by a thread that does nothing else, while another thread traces for the first time
        "SR2" => p
            .worker("A", vec![Op::SetReporter])
            .worker("B", vec![root(1, "q", 2), scope(1), lenter("l"), pop(), pop(), finish(1)]),
        _ => return None,
    };
    if warm {
        for a in pr.actors.iter_mut() {
            a.ops.insert(0, Op::Warm);
        }
    }
    Some(pr.collector(cycles, false, 0))
}

pub fn warm(names: &[&str]) -> Vec<String> {
    names.iter().flat_map(|n| [n.to_string(), format!("{n}+w")]).collect()
}

pub const ALL_SCENARIOS: &[&str] = &[
    "S1", "S2", "S3", "S3b", "S4", "S5", "S5b", "S7", "S8", "S19", "S19r", "S20", "S11", "S12", "S13", "S14", "S15", "S17",
];

/// Attachments with boundary strings through every route (C06's input quantifier).
pub fn string_programs() -> Vec<Program> {
    let big = "x".repeat(1024);
    let strings: Vec<(&str, &str)> = vec![("", ""), ("k", "v"), ("k", "v2"), ("\u{e9}", "\u{e9}\u{e9}"), ("\u{1F600}", "\u{10FFFF}"), ("big", &big)];
    let mut out = Vec::new();
    for (i, (k, v)) in strings.iter().enumerate() {
        let kv = || vec![(k.to_string(), v.to_string()), ("k".to_string(), format!("dup{i}"))];
        let ops = vec![
            Op::Root { slot: 0, name: format!("r{k}"), trace: U128(0x66), remote_parent: 0, sampled: true, props: kv() },
            Op::AddProps { slot: 0, props: kv() },
            Op::AddEvent { slot: 0, name: format!("ev{v}"), props: kv() },
            Op::AddEvent { slot: 0, name: format!("dep.ev{v}"), props: kv() },
            Op::AddProps { slot: 0, props: vec![(k.to_string(), format!("single{i}"))] },
            Op::AddEvent { slot: 0, name: format!("ev1{v}"), props: vec![(k.to_string(), format!("one{i}"))] },
            scope(0),
            Op::LocalEnter { name: format!("l{k}"), props: kv() },
            Op::LocalAddProps { props: kv() },
            Op::LocalAddEvent { name: format!("le{v}"), props: kv() },
            Op::LocalAddEvent { name: format!("dep.le{v}"), props: kv() },
            Op::LocalAddProps { props: vec![(k.to_string(), format!("lsingle{i}"))] },
            Op::LocalEnter { name: format!("l1{k}"), props: vec![(k.to_string(), format!("lone{i}"))] },
            pop(),
            pop(),
            Op::LocalAddProps { props: kv() },
            Op::LocalAddEvent { name: format!("le2{v}"), props: kv() },
            pop(),
            finish(0),
        ];
        out.push(Program::new(format!("C06-strings#{i}")).worker("A", ops));
    }
    out
}

/// Builds a program from a totally ordered list of (actor, op): hand-offs are inserted where the
/// actor changes, and actors that are done wait for the end before their thread exits.
pub fn lockstep(name: &str, seq: &[(usize, Op)]) -> Program {
    let n = seq.iter().map(|(a, _)| *a).max().unwrap_or(0) + 1;
    let mut ops: Vec<Vec<Op>> = vec![Vec::new(); n];
    let mut flag = 300u32;
    let mut cur = seq.first().map(|(a, _)| *a).unwrap_or(0);
    for (a, op) in seq {
        if *a != cur {
            ops[cur].push(Op::Signal(flag));
            ops[*a].push(Op::Wait(flag));
            flag += 1;
            cur = *a;
        }
        ops[*a].push(op.clone());
    }
    let used: Vec<usize> = (0..n).filter(|a| !ops[*a].is_empty()).collect();
    if used.len() > 1 {
        for &a in &used {
            if a != cur {
                ops[a].push(Op::Wait(999));
            }
        }
        ops[cur].push(Op::Signal(999));
    }
    let mut p = Program::new(name);
    for (a, o) in ops.into_iter().enumerate() {
        if !o.is_empty() {
            p = p.worker(["A", "B", "C"][a], o);
        }
    }
    p
}

fn actor_seqs(n: usize, actors: usize) -> Vec<Vec<usize>> {
    let mut out = vec![vec![]];
    for _ in 0..n {
        let mut next = Vec::new();
        for s in &out {
            for a in 0..actors {
                let mut t = s.clone();
                t.push(a);
                next.push(t);
            }
        }
        out = next;
    }
    out
}

/// C13: future adapters. Every poll is bracketed by observations of the local context.
pub fn future_programs(thorough: bool) -> Vec<Program> {
    let mut out = Vec::new();
    let max_polls = if thorough { 3 } else { 2 };
    let mut idx = 0;
    let mut name = |k: &str| {
        idx += 1;
        format!("C13-{k}#{idx}")
    };
    for polls in 1..=max_polls {
        for span_is_root in [true, false] {
            for eop in [false, true] {
                // drop_after: number of polls done before the adapter is dropped (polls = completed)
                for drop_after in 0..=polls {
                    for seq in actor_seqs(drop_after as usize, 2) {
                        for dropper in 0..2usize {
                            if !thorough && dropper == 1 && seq.iter().all(|a| *a == 0) && drop_after > 0 {
                                // keep quick small: a second thread only drops if it also polled
                            }
                            let mut s: Vec<(usize, Op)> = Vec::new();
                            s.push((0, root(0, "r", 0x13)));
                            let span_slot = if span_is_root {
                                0
                            } else {
                                s.push((0, child(1, "c", 0)));
                                1
                            };
                            s.push((0, Op::MkInSpan { fut: 0, slot: span_slot, polls, tag: "f".into(), inner_enter_on_poll: eop }));
                            for a in &seq {
                                s.push((*a, Op::ObserveLocal));
                                s.push((*a, Op::Poll { fut: 0 }));
                                s.push((*a, Op::ObserveLocal));
                            }
                            s.push((dropper, Op::DropFut { fut: 0 }));
                            if !span_is_root {
                                s.push((dropper, finish(0)));
                            }
                            out.push(lockstep(&name(if span_is_root { "root" } else { "child" }), &s));
                        }
                    }
                }
            }
        }
    }
    // polled inside an outer scope: the previous local context must come back after every poll
    for polls in 1..=2u32 {
        let mut s: Vec<(usize, Op)> = vec![(0, root(0, "r", 0x13)), (0, root(1, "o", 0x14)), (0, child(2, "c", 0))];
        s.push((0, Op::MkInSpan { fut: 0, slot: 2, polls, tag: "f".into(), inner_enter_on_poll: false }));
        s.push((0, scope(1)));
        s.push((0, lenter("outer")));
        for _ in 0..polls {
            s.push((0, Op::ObserveLocal));
            s.push((0, Op::Poll { fut: 0 }));
            s.push((0, Op::ObserveLocal));
        }
        s.push((0, pop()));
        s.push((0, pop()));
        s.push((0, Op::DropFut { fut: 0 }));
        s.push((0, finish(1)));
        s.push((0, finish(0)));
        out.push(lockstep(&name("inscope"), &s));
    }
    // an adapter whose span is unsampled, polled while the polling thread has a sampled local
    // parent (same thread, or after migrating): the adapter's own (unsampled) scope must shadow it
    for polls in 1..=2u32 {
        for eop in [false, true] {
            for migrate in [false, true] {
                let mut s: Vec<(usize, Op)> = vec![
                    (0, root(0, "r", 0x13)),
                    (0, root_full(1, "u", 0x1305, 3, false, vec![])),
                    (0, Op::MkInSpan { fut: 0, slot: 1, polls, tag: "f".into(), inner_enter_on_poll: eop }),
                ];
                let a = if migrate { 1 } else { 0 };
                s.push((a, scope(0)));
                s.push((a, lenter("outer")));
                for _ in 0..polls {
                    s.push((a, Op::ObserveLocal));
                    s.push((a, Op::Poll { fut: 0 }));
                    s.push((a, Op::ObserveLocal));
                }
                s.push((a, pop()));
                s.push((a, pop()));
                s.push((a, Op::DropFut { fut: 0 }));
                s.push((a, finish(0)));
                out.push(lockstep(&name("unsampled"), &s));
            }
        }
    }
    // nested in_span(in_span): the outer span a child or the trace's root, dropped at every point
    for polls in 1..=2u32 {
        for outer_is_root in [false, true] {
            for done in 0..=polls {
                for seq in actor_seqs(done as usize, 2) {
                    if outer_is_root && seq.iter().any(|a| *a == 1) && !thorough {
                        continue;
                    }
                    let mut s: Vec<(usize, Op)> = vec![(0, root(0, "r", 0x13))];
                    let outer = if outer_is_root {
                        0
                    } else {
                        s.push((0, child(1, "o", 0)));
                        1
                    };
                    s.push((0, child(2, "i", outer)));
                    s.push((0, Op::MkNested { fut: 0, outer, inner: 2, polls, tag: "f".into() }));
                    for a in &seq {
                        s.push((*a, Op::ObserveLocal));
                        s.push((*a, Op::Poll { fut: 0 }));
                        s.push((*a, Op::ObserveLocal));
                    }
                    let last = seq.last().copied().unwrap_or(0);
                    s.push((last, Op::DropFut { fut: 0 }));
                    if !outer_is_root {
                        s.push((last, finish(0)));
                    }
                    out.push(lockstep(&name("nested"), &s));
                }
            }
        }
    }
    // enter_on_poll alone: under a scope, and with no local parent at all
    for polls in 1..=2u32 {
        for scoped in [true, false] {
            let mut s: Vec<(usize, Op)> = vec![(0, root(0, "r", 0x13))];
            s.push((0, Op::MkEnterOnPoll { fut: 0, polls, tag: "f".into() }));
            if scoped {
                s.push((0, scope(0)));
            }
            for _ in 0..polls {
                s.push((0, Op::ObserveLocal));
                s.push((0, Op::Poll { fut: 0 }));
                s.push((0, Op::ObserveLocal));
            }
            if scoped {
                s.push((0, pop()));
            }
            s.push((0, Op::DropFut { fut: 0 }));
            s.push((0, finish(0)));
            out.push(lockstep(&name("eop"), &s));
        }
    }
    // many polls (a dozen Pending polls before completion), in_span with an inner enter_on_poll and
    // enter_on_poll alone, migrating between two threads every third poll
    for eop in [false, true] {
        let polls = 12u32;
        let mut s: Vec<(usize, Op)> = vec![(0, root(0, "r", 0x13)), (0, child(1, "c", 0))];
        s.push((0, Op::MkInSpan { fut: 0, slot: 1, polls, tag: "f".into(), inner_enter_on_poll: eop }));
        for i in 0..polls {
            let a = ((i / 3) % 2) as usize;
            s.push((a, Op::ObserveLocal));
            s.push((a, Op::Poll { fut: 0 }));
        }
        s.push((0, Op::DropFut { fut: 0 }));
        s.push((0, finish(0)));
        out.push(lockstep(&name("long"), &s));
    }
    // enter_on_poll polled under a different local context every time: no local parent, a sampled
    // scope, an unsampled scope (what one poll found must not be remembered for the next)
    for polls in 2..=3u32 {
        let kinds = 3u32;
        for code in 0..kinds.pow(polls) {
            let ctx: Vec<u32> = (0..polls).map(|i| (code / kinds.pow(i)) % kinds).collect();
            if ctx.iter().all(|c| *c == ctx[0]) {
                continue;
            }
            let mut s: Vec<(usize, Op)> = vec![(0, root(0, "r", 0x13)), (0, root_full(1, "u", 0x1305, 3, false, vec![]))];
            s.push((0, Op::MkEnterOnPoll { fut: 0, polls, tag: "f".into() }));
            for c in &ctx {
                match c {
                    1 => s.push((0, scope(0))),
                    2 => s.push((0, scope(1))),
                    _ => {}
                }
                s.push((0, Op::ObserveLocal));
                s.push((0, Op::Poll { fut: 0 }));
                s.push((0, Op::ObserveLocal));
                if *c != 0 {
                    s.push((0, pop()));
                }
            }
            s.push((0, Op::DropFut { fut: 0 }));
            s.push((0, finish(1)));
            s.push((0, finish(0)));
            out.push(lockstep(&name("eop-mixed"), &s));
        }
    }
    out
}

/// C14: stream and sink adapters.
pub fn stream_sink_programs(thorough: bool) -> Vec<Program> {
    let mut out = Vec::new();
    let mut idx = 0;
    let mut name = |k: &str| {
        idx += 1;
        format!("C14-{k}#{idx}")
    };
    let max_items = if thorough { 2 } else { 1 };
    for items in 0..=max_items {
        for pending_first in [false, true] {
            for span_is_root in [true, false] {
                let total_calls = items + 1 + pending_first as u32;
                for calls in 0..=total_calls {
                    for seq in actor_seqs(calls as usize, 2) {
                        if !thorough && seq.len() > 2 && seq.iter().skip(1).any(|a| *a != seq[1]) {
                            continue;
                        }
                        let mut s: Vec<(usize, Op)> = vec![(0, root(0, "r", 0x14))];
                        let slot = if span_is_root {
                            0
                        } else {
                            s.push((0, child(1, "c", 0)));
                            1
                        };
                        s.push((0, Op::MkStream { fut: 0, slot, items, pending_first, tag: "st".into() }));
                        for a in &seq {
                            s.push((*a, Op::ObserveLocal));
                            s.push((*a, Op::PollNext { fut: 0 }));
                            s.push((*a, Op::ObserveLocal));
                        }
                        let last = seq.last().copied().unwrap_or(0);
                        s.push((last, Op::DropFut { fut: 0 }));
                        if !span_is_root {
                            s.push((last, finish(0)));
                        }
                        out.push(lockstep(&name("stream"), &s));
                    }
                }
            }
        }
    }
    // long runs: a stream of a dozen items (first poll pending), a sink that is sent a dozen items
    // with a flush after every fourth
    {
        let mut s: Vec<(usize, Op)> = vec![(0, root(0, "r", 0x14)), (0, child(1, "c", 0))];
        s.push((0, Op::MkStream { fut: 0, slot: 1, items: 12, pending_first: true, tag: "st".into() }));
        for i in 0..14 {
            let a = ((i / 4) % 2) as usize;
            s.push((a, Op::ObserveLocal));
            s.push((a, Op::PollNext { fut: 0 }));
        }
        s.push((0, Op::DropFut { fut: 0 }));
        s.push((0, finish(0)));
        out.push(lockstep(&name("stream-long"), &s));
        let mut s: Vec<(usize, Op)> = vec![(0, root(0, "r", 0x15)), (0, child(1, "c", 0))];
        s.push((0, Op::MkSink { fut: 0, slot: 1, tag: "sk".into(), pending_first: true, failing: false }));
        for i in 0..12 {
            s.push((0, Op::SinkReady { fut: 0 }));
            s.push((0, Op::SinkSend { fut: 0 }));
            if i % 4 == 3 {
                s.push((0, Op::ObserveLocal));
                s.push((0, Op::SinkFlush { fut: 0 }));
            }
        }
        s.push((0, Op::SinkClose { fut: 0 }));
        s.push((0, Op::ObserveLocal));
        s.push((0, Op::SinkClose { fut: 0 }));
        s.push((0, Op::DropFut { fut: 0 }));
        s.push((0, finish(0)));
        out.push(lockstep(&name("sink-long"), &s));
    }
    // adapters with an unsampled span used inside a sampled scope
    for items in 0..=1u32 {
        let mut s: Vec<(usize, Op)> = vec![(0, root(0, "r", 0x14)), (0, root_full(1, "u", 0x1405, 3, false, vec![]))];
        s.push((0, Op::MkStream { fut: 0, slot: 1, items, pending_first: false, tag: "st".into() }));
        s.push((0, scope(0)));
        for _ in 0..=items {
            s.push((0, Op::ObserveLocal));
            s.push((0, Op::PollNext { fut: 0 }));
            s.push((0, Op::ObserveLocal));
        }
        s.push((0, pop()));
        s.push((0, Op::DropFut { fut: 0 }));
        s.push((0, finish(0)));
        out.push(lockstep(&name("unsampled"), &s));
    }
    {
        let mut s: Vec<(usize, Op)> = vec![(0, root(0, "r", 0x15)), (0, root_full(1, "u", 0x1505, 3, false, vec![]))];
        s.push((0, Op::MkSink { fut: 0, slot: 1, tag: "sk".into(), pending_first: true, failing: false }));
        s.push((0, scope(0)));
        for op in [Op::SinkReady { fut: 0 }, Op::SinkSend { fut: 0 }, Op::SinkFlush { fut: 0 }, Op::SinkClose { fut: 0 }, Op::SinkClose { fut: 0 }] {
            s.push((0, Op::ObserveLocal));
            s.push((0, op));
            s.push((0, Op::ObserveLocal));
        }
        s.push((0, pop()));
        s.push((0, Op::DropFut { fut: 0 }));
        s.push((0, finish(0)));
        out.push(lockstep(&name("unsampled"), &s));
    }
    // sinks: call sequences over ready/send/flush/close, close possibly pending once
    let calls: Vec<Vec<Op>> = {
        let menu = [Op::SinkReady { fut: 0 }, Op::SinkSend { fut: 0 }, Op::SinkFlush { fut: 0 }, Op::SinkClose { fut: 0 }];
        let maxlen = if thorough { 4 } else { 3 };
        let mut all: Vec<Vec<Op>> = vec![vec![]];
        let mut frontier: Vec<Vec<Op>> = vec![vec![]];
        for _ in 0..maxlen {
            let mut next = Vec::new();
            for s in &frontier {
                // nothing after a completed close
                for m in &menu {
                    let mut t = s.clone();
                    t.push(m.clone());
                    next.push(t);
                }
            }
            all.extend(next.iter().cloned());
            frontier = next;
        }
        all
    };
    for (pending_first, failing) in [(false, false), (true, false), (false, true), (true, true)] {
        for span_is_root in [true, false] {
            for cs in &calls {
                // (an inner sink whose ready / send / flush fail: the span still ends at close or drop)
                if failing && !thorough && cs.len() < 2 {
                    continue;
                }
                // stop sequences at the completing close
                let mut closes = 0;
                let mut valid = true;
                for (i, c) in cs.iter().enumerate() {
                    if let Op::SinkClose { .. } = c {
                        closes += 1;
                        let done = if pending_first { closes == 2 } else { closes == 1 };
                        if done && i + 1 != cs.len() {
                            valid = false;
                        }
                    }
                }
                if !valid {
                    continue;
                }
                for second_actor_from in [usize::MAX, 1] {
                    if second_actor_from != usize::MAX && cs.len() < 2 {
                        continue;
                    }
                    let mut s: Vec<(usize, Op)> = vec![(0, root(0, "r", 0x15))];
                    let slot = if span_is_root {
                        0
                    } else {
                        s.push((0, child(1, "c", 0)));
                        1
                    };
                    s.push((0, Op::MkSink { fut: 0, slot, tag: "sk".into(), pending_first, failing }));
                    let mut last = 0;
                    for (i, c) in cs.iter().enumerate() {
                        let a = if i >= second_actor_from { 1 } else { 0 };
                        s.push((a, Op::ObserveLocal));
                        s.push((a, c.clone()));
                        s.push((a, Op::ObserveLocal));
                        last = a;
                    }
                    s.push((last, Op::DropFut { fut: 0 }));
                    if !span_is_root {
                        s.push((last, finish(0)));
                    }
                    out.push(lockstep(&name(if failing { "sink-failing" } else { "sink" }), &s));
                }
            }
        }
    }
    out
}

/// C09: queue-full episodes. A thread that traced before fills its command ring (leaving `leave`
/// free slots), issues up to `max_ops` operations during the episode, waits for the collector's
/// first cycle, then runs a fresh trace.
pub fn overload_programs(max_ops: usize) -> Vec<Program> {
    #[derive(Clone, Copy, PartialEq, Debug)]
    enum E {
        FinishChild,
        EndScope,
        Cancel,
        FinishRoot,
        NewRoot,
        Attach,
    }
    let menu = [E::FinishChild, E::EndScope, E::Cancel, E::FinishRoot, E::NewRoot, E::Attach];
    let mut seqs: Vec<Vec<E>> = vec![vec![]];
    let mut frontier: Vec<Vec<E>> = vec![vec![]];
    for _ in 0..max_ops {
        let mut next = Vec::new();
        for s in &frontier {
            for m in menu {
                if s.contains(&m) {
                    continue;
                }
                // nothing touches the root's handle after it finished
                if s.contains(&E::FinishRoot) && matches!(m, E::Cancel | E::Attach) {
                    continue;
                }
                let mut t = s.clone();
                t.push(m);
                next.push(t);
            }
        }
        seqs.extend(next.iter().cloned());
        frontier = next;
    }
    let mut out = Vec::new();
    let mut idx = 0;
    for (leave, exit_after_drain) in [(0usize, false), (1, false), (2, false), (0, true)] {
        for seq in &seqs {
            // exiting right after the drain is only interesting when everything the program still
            // holds was released during the episode (so that nothing else is sent afterwards)
            if exit_after_drain && (!seq.contains(&E::FinishRoot) || seq.contains(&E::FinishChild) || seq.contains(&E::EndScope)) {
                continue;
            }
            idx += 1;
            let mut ops = vec![
                Op::Warm,
                root(9, "via", 0x9F),
                root(0, "r", 0x91),
                child(1, "c", 0),
                child(2, "c2", 0),
                finish(1),
                scope(0),
                lenter("l"),
                pop(),
                Op::Fill { leave, via: 9 },
                sig(40),
            ];
            let mut root_live = true;
            let mut child_live = true;
            let mut scope_open = true;
            if exit_after_drain {
                // release the child and the scope before the ring is filled
                let pos = ops.iter().position(|o| matches!(o, Op::Fill { .. })).unwrap();
                ops.insert(pos, finish(2));
                ops.insert(pos, pop());
                child_live = false;
                scope_open = false;
            }
            for e in seq {
                match e {
                    E::FinishChild => {
                        ops.push(finish(2));
                        child_live = false;
                    }
                    E::EndScope => {
                        ops.push(pop());
                        scope_open = false;
                    }
                    E::Cancel => ops.push(cancel(0)),
                    E::FinishRoot => {
                        ops.push(finish(0));
                        root_live = false;
                    }
                    E::NewRoot => {
                        ops.push(root(3, "n", 0x92));
                        ops.push(child(4, "nc", 3));
                        ops.push(finish(4));
                        ops.push(finish(3));
                    }
                    E::Attach => ops.push(addprop(0, "k", "v")),
                }
            }
            // after the collector's first cycle: a fresh trace, then release what is left
            ops.push(wait(50));
            if !exit_after_drain {
                ops.push(root(5, "fresh", 0x93));
                ops.push(child(6, "fc", 5));
                ops.push(finish(6));
                ops.push(finish(5));
            }
            if scope_open {
                ops.push(pop());
            }
            if child_live {
                ops.push(finish(2));
            }
            if root_live {
                ops.push(finish(0));
            }
            if exit_after_drain {
                // the filler trace's root is finished during the episode too (its commit is parked),
                // so that the thread really exits without sending anything after the drain
                let pos = ops.iter().position(|o| matches!(o, Op::Wait(50))).unwrap();
                ops.insert(pos, finish(9));
            } else {
                ops.push(finish(9));
            }
            let mut p = Program::new(format!("C09-ring#{idx}")).worker("A", ops);
            p.actors.push(Actor {
                name: "collector".into(),
                kind: ActorKind::Collector { atomic: false, pop_yields: 3 },
                ops: vec![Op::Wait(40), Op::Cycle, Op::Signal(50), Op::Cycle],
                after_exit_of: None,
            });
            out.push(p);
        }
    }
    out.extend(overload_handoff_programs());
    out
}

/// C09 / C08: a trace started while the thread's ring is full and ended on ANOTHER thread (whose ring
/// has room), a collector cycle, then the first thread traces again: the start of that trace was
/// lost for good when it was issued; nothing about the trace may turn up (or stay behind) later.
pub fn overload_handoff_programs() -> Vec<Program> {
    let mut out = Vec::new();
    let mut idx = 0;
    for leave in [0usize, 1] {
        for b_cancels in [false, true] {
            for with_child in [false, true] {
                idx += 1;
                let mut a = vec![Op::Warm, root(9, "via", 0x9F), Op::Fill { leave, via: 9 }, root(3, "late", 0x94)];
                if with_child {
                    a.push(child(4, "late.c", 3));
                    a.push(finish(4));
                }
                a.extend([sig(41), wait(50), root(5, "fresh", 0x93), child(6, "fc", 5), finish(6), finish(5), finish(9)]);
                let mut b = vec![Op::Warm, wait(41)];
                if b_cancels {
                    b.push(cancel(3));
                }
                b.extend([finish(3), sig(42)]);
                let mut p = Program::new(format!("C09-ring-handoff#{idx}")).worker("A", a).worker("B", b);
                p.actors.push(Actor {
                    name: "collector".into(),
                    kind: ActorKind::Collector { atomic: false, pop_yields: 0 },
                    ops: vec![Op::Wait(42), Op::Cycle, Op::Signal(50), Op::Cycle, Op::Cycle],
                    after_exit_of: None,
                });
                out.push(p);
            }
        }
    }
    out
}

/// C04/C09: cancel() with a full ring, the cancelled root finished by ANOTHER thread. Thread A fills
/// its ring, finishes `ahead` roots (their commits are parked), cancels root 1 (parked behind them); a
/// collector cycle empties the ring; A then issues `sends` ordinary (best-effort) submissions, each of
/// which has to replay the parked commands first; thread B finishes root 1; a cycle follows. With
/// `sends` = 0 (family `C04-ring-remote-idle`) nothing replays the parked cancel before B's commit.
pub fn overload_remote_finish_programs() -> Vec<Program> {
    let mut out = Vec::new();
    for sends in [0usize, 1, 2, 3] {
        for ahead in [0u32, 1, 2, 3] {
            let mut a = vec![Op::Warm, root(9, "via", 0x9F)];
            for i in 0..ahead {
                a.push(root(20 + i, &format!("r.ahead{i}"), 0xA0 + i as u128));
            }
            a.extend([root(1, "r1", 0x91), child(2, "c1", 1), finish(2), Op::Fill { leave: 0, via: 9 }]);
            for i in 0..ahead {
                a.push(finish(20 + i));
            }
            a.extend([cancel(1), sig(41), wait(50)]);
            for i in 0..sends {
                a.push(addevent(9, &format!("after{i}")));
            }
            a.extend([sig(43), wait(60), finish(9)]);
            let b = vec![Op::Warm, wait(43), finish(1), sig(44)];
            let fam = if sends == 0 { "C04-ring-remote-idle" } else { "C04-ring-remote-finish" };
            let mut p = Program::new(format!("{fam}#s{sends}a{ahead}")).worker("A", a).worker("B", b);
            p.actors.push(Actor {
                name: "collector".into(),
                kind: ActorKind::Collector { atomic: true, pop_yields: 0 },
                ops: vec![Op::Wait(41), Op::Cycle, Op::Signal(50), Op::Wait(44), Op::Cycle, Op::Signal(60), Op::Cycle],
                after_exit_of: None,
            });
            out.push(p);
        }
    }
    out
}

/// Larger configurations than the generators reach: more threads, more spans per trace, deeper
/// nesting, longer parent lists, many traces ending in one cycle, many quiet cycles in a trace's
/// life. Each is one program (x every placement of its collector cycles); they run under the rules
/// of every property that uses the universal family.
pub fn big_programs() -> Vec<Program> {
    let mut out = Vec::new();
    // (1) three worker threads that trace one after the other, the first two exit before the
    // collector's first cycle, the third keeps tracing afterwards; the root lives on a fourth
    {
        let m = vec![root(0, "r", 0xB16), sig(1), wait(6), finish(0)];
        let t1 = vec![wait(1), child(1, "a", 0), finish(1), sig(2)];
        let t2 = vec![wait(2), child(2, "b", 0), scope(2), lenter("b.l"), pop(), pop(), finish(2), sig(3)];
        let t3 = vec![wait(3), child(3, "c1", 0), finish(3), sig(4), wait(5), child(4, "c2", 0), scope(4), lenter("c2.l"), levent("c2.e"), pop(), pop(), finish(4), sig(6)];
        let mut p = Program::new("BIG-threads#1").worker("M", m).worker("T1", t1).worker("T2", t2).worker("T3", t3);
        // (explored with a preemption bound, see `plans.rs`: it comes first in the list)
        p.actors.push(Actor {
            name: "collector".into(),
            kind: ActorKind::Collector { atomic: true, pop_yields: 0 },
            ops: vec![Op::Wait(4), Op::Cycle, Op::Signal(5), Op::Cycle],
            after_exit_of: None,
        });
        out.push(p);
    }
    // (1b) more than a thousand commands in the queue of the thread that registered first, among them
    // (first) the commit of a trace whose start sits in the queue of a thread that registered later
    {
        let b = vec![Op::Warm, sig(1), wait(2), finish(0), root(9, "via", 0xB19), Op::Fill { leave: 10_240 - 1_100, via: 9 }, sig(3), wait(5), finish(9)];
        let a = vec![wait(1), root(0, "r", 0xB18), child(1, "r.c", 0), finish(1), sig(2), wait(5)];
        let mut p = Program::new("BIG-budget#1").worker("B", b).worker("A", a);
        p.actors.push(Actor {
            name: "collector".into(),
            kind: ActorKind::Collector { atomic: true, pop_yields: 0 },
            ops: vec![Op::Wait(3), Op::Cycle, Op::Cycle, Op::Signal(5), Op::Cycle],
            after_exit_of: None,
        });
        out.push(p);
    }
    // (2) a deep and wide tree on one thread: 4 levels of thread-safe spans (15 of them), local
    // nesting of depth 5 with attachments at every level, a dozen sibling local spans
    {
        let mut ops = vec![root(0, "r", 0xB17)];
        let mut slot = 1u32;
        let mut level: Vec<u32> = vec![0];
        for depth in 0..3 {
            let mut next = Vec::new();
            for p in &level {
                for k in 0..2 {
                    ops.push(child(slot, &format!("s{depth}.{slot}.{k}"), *p));
                    next.push(slot);
                    slot += 1;
                }
            }
            level = next;
        }
        ops.push(scope(level[0]));
        for d in 0..5 {
            ops.push(lenter(&format!("d{d}")));
            ops.push(lprop(&format!("dk{d}"), &format!("dv{d}")));
            ops.push(levent(&format!("de{d}")));
        }
        for _ in 0..5 {
            ops.push(pop());
        }
        for k in 0..12 {
            ops.push(lenter(&format!("w{k}")));
            if k % 3 == 0 {
                ops.push(levent(&format!("we{k}")));
            }
            ops.push(pop());
        }
        ops.push(lchild(slot, "lc"));
        ops.push(finish(slot));
        ops.push(pop());
        for s in (1..slot).rev() {
            ops.push(finish(s));
        }
        ops.push(finish(0));
        out.push(Program::new("BIG-tree#1").worker("A", ops).collector(1, true, 0));
    }
    // (3) five roots (one of them unsampled), a span with all five as parents, a child of it, a
    // scope with local spans and attachments, attachments by handle; roots finished first / last
    for roots_first in [false, true] {
        let mut ops = Vec::new();
        for k in 0..5u32 {
            ops.push(Op::Root { slot: k, name: format!("r{k}"), trace: U128(0xB20 + k as u128), remote_parent: 0, sampled: k != 3, props: vec![] });
        }
        ops.push(child_of(10, "m", &[0, 1, 2, 3, 4]));
        ops.push(child(11, "mc", 10));
        ops.push(scope(11));
        ops.push(lenter("l1"));
        ops.push(levent("l1.e"));
        ops.push(lenter("l2"));
        ops.push(lprop("l2.k", "l2.v"));
        ops.push(pop());
        ops.push(pop());
        ops.push(pop());
        ops.push(addprop(10, "m.k", "m.v"));
        ops.push(addevent(11, "mc.e"));
        if roots_first {
            for k in 0..5 {
                ops.push(finish(k));
            }
        }
        ops.push(finish(11));
        ops.push(finish(10));
        if !roots_first {
            for k in 0..5 {
                ops.push(finish(k));
            }
        }
        out.push(Program::new(format!("BIG-parents#{}", roots_first as u32)).worker("A", ops).collector(1, true, 0));
    }
    // (3b) parent lists of 9 and 12 spans in as many traces, unsampled ones first and last / first,
    // second and last / in the middle; a child, a local scope, an attachment
    for (n, unsampled) in [(9u32, vec![0u32, 8]), (9, vec![4]), (12, vec![0, 1, 11]), (12, vec![0, 5, 6, 11])] {
        let mut ops = Vec::new();
        for k in 0..n {
            ops.push(Op::Root { slot: k, name: format!("r{k}"), trace: U128(0xB80 + k as u128), remote_parent: 0, sampled: !unsampled.contains(&k), props: vec![] });
        }
        let parents: Vec<u32> = (0..n).collect();
        ops.push(child_of(20, "m", &parents));
        ops.push(child(21, "mc", 20));
        ops.push(scope(20));
        ops.push(lenter("l"));
        ops.push(levent("l.e"));
        ops.push(pop());
        ops.push(Op::ObserveLocal);
        ops.push(pop());
        ops.push(Op::ObserveSpan { slot: 21 });
        ops.push(addprop(20, "m.k", "m.v"));
        ops.push(finish(21));
        ops.push(finish(20));
        for k in 0..n {
            ops.push(finish(k));
        }
        out.push(Program::new(format!("BIG-parents{n}#{}", unsampled.len())).worker("A", ops).collector(1, true, 0));
    }
    // (4) twenty traces (root, child, local span) that all end between two cycles
    {
        let mut ops = Vec::new();
        for k in 0..20u32 {
            ops.push(root(k, &format!("t{k}"), 0xB40 + k as u128));
            ops.push(child(100 + k, &format!("t{k}.c"), k));
        }
        for k in 0..20u32 {
            ops.push(scope(100 + k));
            ops.push(lenter(&format!("t{k}.l")));
            ops.push(pop());
            ops.push(pop());
            ops.push(finish(100 + k));
        }
        for k in 0..20u32 {
            ops.push(finish(k));
        }
        out.push(Program::new("BIG-traces#1").worker("A", ops).collector(0, true, 0));
    }
    // (5) a trace that stays open and quiet over a dozen collector cycles, then gets attachments by
    // handle and through the local parent, a late child, and ends
    {
        let mut ops = vec![root(0, "r", 0xB60), child(1, "c", 0)];
        for _ in 0..12 {
            ops.push(Op::Cycle);
        }
        ops.extend([addprop(1, "late.k", "late.v"), addevent(0, "late.e"), scope(1), lprop("late.lk", "late.lv"), lenter("late.l"), levent("late.le"), pop(), pop(), child(2, "late.c", 0), finish(2), finish(1)]);
        for _ in 0..3 {
            ops.push(Op::Cycle);
        }
        ops.push(finish(0));
        out.push(Program::new("BIG-quiet#1").worker("A", ops).collector(0, true, 0));
    }
    // (5b) sixty attachments by handle, alternating between two traces (and between properties and
    // events), all taken by one cycle: each record keeps them in the order they were made
    {
        let mut ops = vec![root(0, "a", 0xB68), root(1, "b", 0xB69), child(2, "a.c", 0)];
        for k in 0..60u32 {
            let slot = [0u32, 1, 2][(k % 3) as usize];
            if k % 2 == 0 {
                ops.push(addprop(slot, &format!("k{k}"), &format!("v{k}")));
            } else {
                ops.push(addevent(slot, &format!("e{k}")));
            }
        }
        ops.extend([finish(2), finish(0), finish(1)]);
        out.push(Program::new("BIG-attach-order#1").worker("A", ops).collector(0, true, 0));
    }
    // (5a) twenty properties at once through every route (creation of a root, a child, a local
    // span; by handle; through the local parent; on events)
    {
        let props: Vec<(String, String)> = (0..20).map(|i| (format!("p{i}"), format!("v{i}"))).collect();
        let ops = vec![
            Op::Root { slot: 0, name: "r".into(), trace: U128(0xB67), remote_parent: 0, sampled: true, props: props.clone() },
            Op::Child { slot: 1, name: "c".into(), parents: vec![0], single: true, props: props.clone() },
            Op::AddProps { slot: 1, props: props.clone() },
            Op::AddEvent { slot: 0, name: "e".into(), props: props.clone() },
            scope(1),
            Op::LocalEnter { name: "l".into(), props: props.clone() },
            Op::LocalAddProps { props: props.clone() },
            Op::LocalAddEvent { name: "le".into(), props: props.clone() },
            pop(),
            Op::LocalAddProps { props: props.clone() },
            pop(),
            finish(1),
            finish(0),
        ];
        out.push(Program::new("BIG-props#1").worker("A", ops).collector(1, true, 0));
    }
    // (5c) two open traces, forty spans of the first and three of the second finished before one
    // cycle that runs while both roots are still open; then the roots finish
    {
        let mut ops = vec![root(0, "a", 0xB6A), root(1, "b", 0xB6B)];
        for k in 0..40u32 {
            ops.push(child(10 + k, &format!("a{k}"), 0));
            ops.push(finish(10 + k));
        }
        for k in 0..3u32 {
            ops.push(child(60 + k, &format!("b{k}"), 1));
            ops.push(finish(60 + k));
        }
        ops.push(Op::Cycle);
        ops.extend([child(70, "b.late", 1), finish(70), Op::Cycle, finish(1), finish(0)]);
        out.push(Program::new("BIG-busy-cycle#1").worker("A", ops).collector(0, true, 0));
    }
    // (5d) seventy traces started one after the other on one thread, each still open when the
    // next one starts, each with a child finished on the way
    {
        let mut ops = vec![root(0, "t0", 0xC000)];
        for k in 1..70u32 {
            ops.push(root(k, &format!("t{k}"), 0xC000 + k as u128));
            ops.push(child(100 + k, &format!("t{}.c", k - 1), k - 1));
            ops.push(finish(100 + k));
            ops.push(finish(k - 1));
            // a cycle after every trace: what belongs to the next one must not go with it
            ops.push(Op::Cycle);
        }
        ops.push(finish(69));
        out.push(Program::new("BIG-many-traces#1").worker("A", ops).collector(0, true, 0));
    }
    // (6) one trace with 600 spans finished before its root, all delivered by one cycle
    {
        let mut ops = vec![root(0, "r", 0xB70), addprop(0, "early.k", "early.v"), addevent(0, "early.e"), Op::Cycle];
        for k in 0..600u32 {
            ops.push(child(1 + k, &format!("k{k}"), 0));
            ops.push(finish(1 + k));
        }
        ops.push(Op::Cycle);
        ops.push(addevent(0, "late.e"));
        ops.push(finish(0));
        out.push(Program::new("BIG-records#1").worker("A", ops).collector(0, true, 0));
    }
    out
}

/// C16 / C07: long parent lists made of spans that do not record (no-op spans), alone and with one
/// real parent among them: the child of nothing-but-no-ops is itself inert, whatever the length.
pub fn noop_parents_programs() -> Vec<Program> {
    let mut out = Vec::new();
    for n in [1u32, 4, 5, 6, 12] {
        for real in [false, true] {
            let mut ops = Vec::new();
            for k in 0..n {
                ops.push(Op::Noop { slot: k });
            }
            let mut parents: Vec<u32> = (0..n).collect();
            if real {
                ops.push(root(50, "r", 0x16F));
                parents.insert((n / 2) as usize, 50);
            }
            ops.push(child_of(60, "m", &parents));
            ops.push(Op::Elapsed { slot: 60 });
            ops.push(Op::AddProps { slot: 60, props: vec![("k".into(), "v".into())] });
            ops.push(Op::AddEvent { slot: 60, name: "e".into(), props: vec![("ek".into(), "ev".into())] });
            ops.push(Op::ObserveSpan { slot: 60 });
            ops.push(scope(60));
            ops.push(Op::ObserveLocal);
            ops.push(Op::LocalEnter { name: "l".into(), props: vec![("lk".into(), "lv".into())] });
            ops.push(Op::LocalAddProps { props: vec![("lk2".into(), "lv2".into())] });
            ops.push(pop());
            ops.push(lchild(61, "lc"));
            ops.push(Op::Elapsed { slot: 61 });
            ops.push(finish(61));
            ops.push(pop());
            ops.push(child(62, "mc", 60));
            ops.push(Op::Elapsed { slot: 62 });
            ops.push(finish(62));
            ops.push(finish(60));
            if real {
                ops.push(finish(50));
            }
            for k in 0..n {
                ops.push(finish(k));
            }
            out.push(Program::new(format!("C16-noop-parents#{n}.{}", real as u32)).worker("A", ops).collector(0, true, 0));
        }
    }
    out
}

/// C09 / C04: many forced commands parked in one queue-full episode (twenty roots finished and one
/// cancelled while the ring is full), then the drain and a fresh trace.
pub fn overload_many_parked_programs() -> Vec<Program> {
    let mut out = Vec::new();
    for (cancel_last, n_parked) in [(true, 20u32), (false, 20), (true, 70), (true, 140), (false, 140)] {
        let mut ops = vec![Op::Warm, root(9, "via", 0x9F)];
        for k in 0..n_parked {
            ops.push(root(100 + k, &format!("p{k}"), 0x9A00 + k as u128));
        }
        ops.push(root(0, "victim", 0x9AFF));
        ops.push(child(1, "victim.c", 0));
        ops.push(finish(1));
        ops.push(Op::Fill { leave: 0, via: 9 });
        ops.push(sig(40));
        if !cancel_last {
            ops.push(cancel(0));
        }
        for k in 0..n_parked {
            ops.push(finish(100 + k));
        }
        if cancel_last {
            ops.push(cancel(0));
        }
        ops.push(wait(50));
        ops.push(child(2, "victim.late", 0));
        ops.push(finish(2));
        ops.push(finish(0));
        // (with many parked commands: a cycle exactly between the victim's finish and the next send)
        let staged = n_parked > 100;
        if staged {
            ops.push(sig(60));
            ops.push(wait(61));
        }
        ops.push(root(5, "fresh", 0x93));
        ops.push(finish(5));
        ops.push(finish(9));
        let mut p = Program::new(format!("C09-ring-many-parked#{}.{n_parked}", cancel_last as u32)).worker("A", ops);
        p.actors.push(Actor {
            name: "collector".into(),
            kind: ActorKind::Collector { atomic: true, pop_yields: 0 },
            ops: if staged {
                vec![Op::Wait(40), Op::Cycle, Op::Signal(50), Op::Wait(60), Op::Cycle, Op::Signal(61), Op::Cycle]
            } else {
                vec![Op::Wait(40), Op::Cycle, Op::Signal(50), Op::Cycle, Op::Cycle]
            },
            after_exit_of: None,
        });
        out.push(p);
    }
    out
}

/// C09: the per-scope span limit.
pub fn local_limit_programs() -> Vec<Program> {
    let mut out = Vec::new();
    let mut idx = 0;
    let extra: Vec<Vec<Op>> = vec![
        vec![],
        vec![lenter("x1"), pop()],
        vec![lenter("x1"), lenter("x2"), pop(), pop()],
        vec![lenter("x1"), pop(), lenter("x2"), pop()],
        vec![levent("xe"), lenter("x1"), pop()],
        vec![lenter("x1"), lprop("xk", "xv"), levent("xe2"), pop()],
        vec![lenter("x1"), lchild(3, "xc"), finish(3), pop(), lenter("x2"), pop()],
    ];
    for leave in [0usize, 1, 2] {
        for ex in &extra {
            idx += 1;
            let mut ops = vec![root(0, "r", 0x9A), scope(0), lenter("outer"), Op::FillLocalSpans { leave }];
            ops.extend(ex.iter().cloned());
            ops.push(pop());
            ops.push(pop());
            ops.push(finish(0));
            out.push(Program::new(format!("C09-locals#{idx}")).worker("A", ops).collector(1, true, 0));
        }
    }
    // the same with no local span open while the scope fills up: spans refused at the top level of
    // the scope, then thread-safe children and contexts taken through the local parent
    let extra_top: Vec<Vec<Op>> = vec![
        vec![lenter("x1"), pop(), lchild(3, "xc"), finish(3)],
        vec![lenter("x1"), lchild(3, "xc"), finish(3), pop(), Op::ObserveLocal],
        vec![lenter("x1"), pop(), Op::ObserveLocal, lenter("x2"), pop(), lchild(3, "xc"), Op::ObserveSpan { slot: 3 }, finish(3)],
        vec![lenter("x1"), lenter("x2"), pop(), pop(), lchild(3, "xc"), finish(3), levent("xe")],
        vec![levent("xe"), lprop("xk", "xv"), lchild(3, "xc"), finish(3)],
    ];
    for leave in [0usize, 1, 2] {
        for ex in &extra_top {
            idx += 1;
            let mut ops = vec![root(0, "r", 0x9B), scope(0), Op::FillLocalSpans { leave }];
            ops.extend(ex.iter().cloned());
            ops.push(pop());
            ops.push(finish(0));
            out.push(Program::new(format!("C09-locals-top#{idx}")).worker("A", ops).collector(1, true, 0));
        }
    }
    out
}

/// C07: calls issued from inside the closure of every closure-taking call.
pub fn reentrant_programs() -> Vec<Program> {
    let inners: Vec<(&str, Vec<Op>)> = vec![
        ("local-span", vec![lenter("in"), pop()]),
        ("local-event", vec![levent("in.e")]),
        ("local-prop", vec![lprop("in.k", "in.v")]),
        ("local-ctx", vec![Op::ObserveLocal]),
        ("child-of-local", vec![lchild(800, "in.c"), finish(800)]),
        ("new-root", vec![root(801, "in.r", 0x77), finish(801)]),
        ("scope", vec![scope(0), lenter("in.l"), pop(), pop()]),
        ("local-collector", vec![Op::LcStart, lenter("in.l2"), pop(), pop()]),
        ("handle-attach", vec![addprop(0, "in.hk", "in.hv"), addevent(0, "in.he")]),
        ("ctx-of-span", vec![Op::ObserveSpan { slot: 0 }, Op::Elapsed { slot: 0 }]),
        ("nested-closure", vec![Op::Reentrant { outer: Box::new(Op::LocalEnter { name: "in.n".into(), props: p("a", "b") }), inner: vec![levent("in.ne")] }, pop()]),
    ];
    let outers: Vec<(&str, Op, bool)> = vec![
        ("root.with_properties", Op::Root { slot: 1, name: "o.r".into(), trace: U128(0x78), remote_parent: 0, sampled: true, props: p("o", "1") }, true),
        ("child.with_properties", Op::Child { slot: 1, name: "o.c".into(), parents: vec![0], single: true, props: p("o", "1") }, true),
        ("span.add_properties", Op::AddProps { slot: 0, props: p("o", "1") }, false),
        ("event.with_properties->span", Op::AddEvent { slot: 0, name: "o.e".into(), props: p("o", "1") }, false),
        ("local_span.with_properties", Op::LocalEnter { name: "o.l".into(), props: p("o", "1") }, false),
        ("local_span.add_properties", Op::LocalAddProps { props: p("o", "1") }, false),
        ("event.with_properties->local", Op::LocalAddEvent { name: "o.le".into(), props: p("o", "1") }, false),
        // the deprecated free-standing forms take the closure themselves
        ("Event::add_to_parent", Op::AddEvent { slot: 0, name: "dep.o.e".into(), props: p("o", "1") }, false),
        ("Event::add_to_local_parent", Op::LocalAddEvent { name: "dep.o.le".into(), props: p("o", "1") }, false),
    ];
    let mut out = Vec::new();
    let mut idx = 0;
    for (on, outer, makes_span) in &outers {
        for (inn, inner) in &inners {
            for in_local in [false, true] {
                idx += 1;
                let mut ops = vec![root(0, "r", 0x70), scope(0)];
                if in_local {
                    ops.push(lenter("open"));
                }
                ops.push(Op::Reentrant { outer: Box::new(outer.clone()), inner: inner.clone() });
                if let Op::LocalEnter { .. } = outer {
                    ops.push(pop());
                }
                if in_local {
                    ops.push(pop());
                }
                ops.push(pop());
                if *makes_span {
                    ops.push(finish(1));
                }
                ops.push(finish(0));
                let _ = (on, inn);
                out.push(Program::new(format!("C07-reentrant#{idx}")).worker("A", ops.clone()).collector(0, true, 0));
                // the same with a closure that hands back a lazy iterator (the tracing calls happen
                // while the library consumes it)
                out.push(Program::new(format!("C07-reentrant-lazy#{idx}")).worker("A", ops).collector(0, true, 0));
            }
        }
    }
    out
}

/// C07: limits (scope stack, per-scope spans, full ring).
pub fn limit_programs() -> Vec<Program> {
    let mut out = Vec::new();
    let mut idx = 0;
    let after: Vec<Vec<Op>> = vec![
        vec![scope(0), pop()],
        vec![scope(0), lenter("x"), pop(), pop()],
        vec![scope(0), scope(0), pop(), pop()],
        vec![Op::LcStart, lenter("x"), pop(), Op::LcCollect { set: 0 }, Op::DropSet { set: 0 }],
        vec![Op::LcStart, pop()],
        vec![lenter("x"), lchild(3, "xc"), finish(3), pop()],
        vec![scope(0), Op::ObserveLocal, levent("e"), lprop("k", "v"), pop()],
    ];
    for leave in [0usize, 1] {
        for a in &after {
            idx += 1;
            let mut ops = vec![root(0, "r", 0x7C), Op::FillScopes { slot: 0, leave }];
            ops.extend(a.iter().cloned());
            ops.push(Op::Unfill);
            ops.push(finish(0));
            out.push(Program::new(format!("C07-scopes#{idx}")).worker("A", ops).collector(0, true, 0));
        }
    }
    for leave in [0usize, 1] {
        for a in [vec![lenter("x"), pop()], vec![levent("e"), lprop("k", "v")], vec![lchild(3, "xc"), finish(3), Op::ObserveLocal]] {
            idx += 1;
            let mut ops = vec![root(0, "r", 0x7D), scope(0), Op::FillLocalSpans { leave }];
            ops.extend(a);
            ops.push(pop());
            ops.push(finish(0));
            out.push(Program::new(format!("C07-locals#{idx}")).worker("A", ops).collector(0, true, 0));
        }
    }
    for leave in [0usize, 1] {
        for a in [
            vec![child(3, "c", 0), finish(3)],
            vec![cancel(0), addprop(0, "k", "v"), addevent(0, "e")],
            vec![scope(0), lenter("x"), pop(), pop()],
            vec![root(3, "n", 0x7F), finish(3), Op::Flush],
        ] {
            idx += 1;
            let mut ops = vec![root(9, "via", 0x7E), root(0, "r", 0x7E), Op::Fill { leave, via: 9 }];
            ops.extend(a);
            ops.push(finish(0));
            ops.push(finish(9));
            out.push(Program::new(format!("C07-ring#{idx}")).worker("A", ops).collector(1, true, 0));
        }
    }
    out
}

/// C07: calls made while the thread's local storage is being torn down.
pub fn teardown_programs() -> Vec<Program> {
    let calls: Vec<Vec<Op>> = vec![
        vec![root(900, "x.r", 0x71), finish(900)],
        vec![Op::RootRandom { slot: 900, name: "x.rr".into() }, finish(900)],
        vec![Op::RandomIds],
        vec![root(900, "x.r", 0x71), child(901, "x.c", 900), addprop(901, "k", "v"), addevent(901, "e"), finish(901), finish(900)],
        vec![root(900, "x.r", 0x71), scope(900), lenter("x.l"), levent("x.e"), lprop("k", "v"), Op::ObserveLocal, lchild(901, "x.lc"), finish(901), pop(), pop(), finish(900)],
        vec![lenter("x.l"), pop(), levent("x.e"), lprop("k", "v"), Op::ObserveLocal, lchild(901, "x.lc"), finish(901)],
        vec![Op::LcStart, lenter("x.l"), pop(), Op::LcCollect { set: 90 }, Op::ToRecords { set: 90, trace: U128(1), span_id: 2 }, Op::DropSet { set: 90 }],
        vec![root(900, "x.r", 0x71), cancel(900), Op::Elapsed { slot: 900 }, Op::ObserveSpan { slot: 900 }, finish(900), Op::Flush],
        vec![Op::Noop { slot: 900 }, child(901, "x.c", 900), scope(901), pop(), finish(901), finish(900)],
    ];
    let mut out = Vec::new();
    let mut idx = 0;
    for call in &calls {
        // registration order of the calling destructor relative to fastrace's (and rand's)
        // thread-locals, and whether the thread traced at all
        for variant in 0..4 {
            idx += 1;
            let hook = Op::AtThreadExit { inner: call.clone() };
            let traced = vec![root(0, "r", 0x70), scope(0), lenter("l"), pop(), pop(), finish(0)];
            let ops: Vec<Op> = match variant {
                // destructor registered first, thread traces afterwards: runs after fastrace's TLS is gone
                0 => std::iter::once(hook).chain(traced).collect(),
                // thread traced first: destructor runs before fastrace's TLS is destroyed
                1 => traced.into_iter().chain(std::iter::once(hook)).collect(),
                // thread never traced
                2 => vec![hook],
                // registered first, then only random ids were used (rand's TLS exists, fastrace's not)
                _ => vec![hook, Op::RandomIds],
            };
            out.push(Program::new(format!("C07-teardown#{idx}")).worker("A", ops).collector(0, true, 0));
        }
    }
    out
}

/// C17: a captured set pushed to several parents whose traces have (or have not) already ended.
pub fn late_push_programs() -> Vec<Program> {
    let mut out = Vec::new();
    let mut idx = 0;
    // pushed to a span whose parents mix sampled and unsampled traces (in both orders), and to an
    // unsampled span next to a sampled one
    for order in 0..3 {
        idx += 1;
        let mut ops = vec![Op::LcStart, lenter("a"), levent("a.e"), pop(), lenter("c"), pop(), Op::LcCollect { set: 0 }];
        ops.push(root(10, "rs", 0x17A));
        ops.push(root_full(11, "ru", 0x17B, 4, false, vec![]));
        let parents: Vec<u32> = match order {
            0 => vec![10, 11],
            1 => vec![11, 10],
            _ => vec![10],
        };
        ops.push(child_of(20, "m", &parents));
        ops.push(Op::PushChildSpans { set: 0, slot: 20 });
        if order == 2 {
            ops.push(Op::PushChildSpans { set: 0, slot: 11 });
        }
        ops.push(Op::DropSet { set: 0 });
        ops.push(finish(20));
        ops.push(finish(11));
        ops.push(finish(10));
        out.push(Program::new(format!("C17-late#{idx}")).worker("A", ops));
    }
    let shapes: Vec<Vec<Op>> = vec![
        vec![lenter("a"), levent("a.e"), lprop("a.k", "a.v"), pop()],
        vec![lenter("a"), lenter("b"), levent("b.e"), pop(), lprop("a.k", "a.v"), pop(), levent("top.e")],
        vec![lenter("a"), levent("a.e"), Op::BusyWait { micros: 300 }],
        vec![lenter("a"), lenter("b"), Op::BusyWait { micros: 300 }],
        vec![lenter("a"), lenter("b"), pop(), Op::BusyWait { micros: 300 }],
        vec![lenter("a"), lenter("b"), levent("b.e"), pop(), lenter("c"), pop(), Op::BusyWait { micros: 300 }],
        vec![Op::LocalEnter { name: "a".into(), props: p("ck", "cv") }, pop(), lenter("b"), lprop("b.k", "b.v"), pop()],
        // a finished top-level span first, then a sibling (with a child) still open at collect()
        vec![lenter("a"), pop(), Op::BusyWait { micros: 300 }, lenter("b"), levent("b.e"), Op::BusyWait { micros: 300 }],
        vec![lenter("a"), pop(), lenter("b"), Op::BusyWait { micros: 200 }, lenter("c"), pop(), Op::BusyWait { micros: 300 }],
        vec![levent("top.e"), lenter("a"), pop(), lenter("b"), lenter("c"), Op::BusyWait { micros: 300 }],
        // attachments to a span after ten of its children, and a span left open with ten entries after it
        {
            let mut v = vec![lenter("a")];
            for k in 0..10 {
                v.push(lenter(&format!("a.c{k}")));
                v.push(pop());
            }
            v.extend([levent("a.late.e"), lprop("a.late.k", "a.late.v"), pop()]);
            v
        },
        {
            let mut v = vec![lenter("a"), Op::BusyWait { micros: 300 }];
            for k in 0..4 {
                v.push(lenter(&format!("a.c{k}")));
                v.push(levent(&format!("a.c{k}.e")));
                v.push(pop());
                v.push(lprop(&format!("a.k{k}"), "v"));
            }
            v.push(Op::BusyWait { micros: 300 });
            v
        },
    ];
    for shape in &shapes {
        let opens = shape.iter().filter(|o| matches!(o, Op::LocalEnter { .. })).count() as i32 - shape.iter().filter(|o| matches!(o, Op::Pop)).count() as i32;
        for n_parents in [2usize, 3] {
            for same_trace in [false, true] {
                for roots_first in [true, false] {
                    idx += 1;
                    let mut ops = vec![Op::LcStart];
                    ops.extend(shape.iter().cloned());
                    // spans still open are closed by collect(); the guards are released afterwards
                    let _ = opens;
                    ops.push(Op::LcCollect { set: 0 });
                    let mut roots = Vec::new();
                    let mut kids = Vec::new();
                    for k in 0..n_parents {
                        let rslot = 10 + k as u32;
                        if k == 0 || !same_trace {
                            ops.push(root(rslot, &format!("r{k}"), 0x170 + k as u128));
                            roots.push(rslot);
                        }
                        let parent_root = if same_trace { roots[0] } else { rslot };
                        ops.push(child(20 + k as u32, &format!("c{k}"), parent_root));
                        kids.push(20 + k as u32);
                    }
                    if roots_first {
                        for r in &roots {
                            ops.push(finish(*r));
                        }
                    }
                    for c in &kids {
                        ops.push(Op::PushChildSpans { set: 0, slot: *c });
                    }
                    ops.push(Op::ToRecords { set: 0, trace: U128(0xEE), span_id: 0x99 });
                    ops.push(Op::DropSet { set: 0 });
                    for c in &kids {
                        ops.push(finish(*c));
                    }
                    if !roots_first {
                        for r in &roots {
                            ops.push(finish(*r));
                        }
                    }
                    // LcCollect consumed the collector guard; local spans left open by the shape are
                    // only model-side guards of the interpreter
                    out.push(Program::new(format!("C17-late#{idx}")).worker("A", ops));
                }
            }
        }
    }
    // a large captured set: 20 local spans (nesting depth 5, attachments on most of them, the last
    // two left open) pushed to four spans in four traces, converted directly as well
    {
        idx += 1;
        let mut ops = vec![Op::LcStart];
        for d in 0..5 {
            ops.push(lenter(&format!("n{d}")));
            ops.push(lprop(&format!("n{d}.k"), &format!("n{d}.v")));
        }
        for _ in 0..5 {
            ops.push(levent("deep.e"));
            ops.push(pop());
        }
        for k in 0..13 {
            ops.push(lenter(&format!("w{k}")));
            if k % 2 == 0 {
                ops.push(levent(&format!("w{k}.e")));
            }
            ops.push(pop());
        }
        ops.push(lenter("open1"));
        ops.push(lenter("open2"));
        ops.push(Op::LcCollect { set: 0 });
        ops.push(root(10, "r0", 0x17C));
        ops.push(root(11, "r1", 0x17D));
        ops.push(root(12, "r2", 0x17E));
        ops.push(root(13, "r3", 0x17F));
        ops.push(child(20, "c0", 10));
        ops.push(child(21, "c1", 11));
        // (four different traces: two copies in one trace are known finding K1)
        for slot in [13u32, 20, 21, 12] {
            ops.push(Op::PushChildSpans { set: 0, slot });
        }
        ops.push(Op::ToRecords { set: 0, trace: U128(0xEE), span_id: 0x99 });
        ops.push(Op::DropSet { set: 0 });
        for slot in [20u32, 21, 10, 11, 12, 13] {
            ops.push(finish(slot));
        }
        out.push(Program::new(format!("C17-late#{idx}")).worker("A", ops));
    }
    // pushed to a span that itself has several parents: roots with different trace ids, and roots
    // that carry the same trace id (two requests continuing one distributed trace); directly and to
    // a child of the merged span; roots finished before or after
    for same_id in [false, true] {
        for n_roots in [2usize, 3] {
            for below in [false, true] {
                for roots_first in [false, true] {
                    idx += 1;
                    let mut ops = vec![Op::LcStart, lenter("a"), levent("a.e"), lenter("b"), pop(), pop(), lenter("c"), lprop("c.k", "c.v"), pop(), Op::LcCollect { set: 0 }];
                    let roots: Vec<u32> = (0..n_roots as u32).map(|k| 10 + k).collect();
                    for (k, r) in roots.iter().enumerate() {
                        let id = if same_id { 0x17A } else { 0x17A + k as u128 };
                        ops.push(Op::Root { slot: *r, name: format!("r{k}"), trace: U128(id), remote_parent: 0x50 + k as u64, sampled: true, props: vec![] });
                    }
                    ops.push(Op::Child { slot: 20, name: "m".into(), parents: roots.clone(), single: false, props: vec![] });
                    let target = if below {
                        ops.push(child(21, "mc", 20));
                        21
                    } else {
                        20
                    };
                    if roots_first {
                        for r in &roots {
                            ops.push(finish(*r));
                        }
                    }
                    ops.push(Op::PushChildSpans { set: 0, slot: target });
                    ops.push(Op::DropSet { set: 0 });
                    if below {
                        ops.push(finish(21));
                    }
                    ops.push(finish(20));
                    if !roots_first {
                        for r in &roots {
                            ops.push(finish(*r));
                        }
                    }
                    out.push(Program::new(format!("C17-merged#{idx}")).worker("A", ops));
                }
            }
        }
    }
    out
}

/// C04: cancel() on one root while a span shared with another root (or a descendant of it) is the
/// thread's local parent: what is recorded in that scope before and after the cancel still belongs
/// to the surviving trace.
pub fn cancel_in_scope_programs() -> Vec<Program> {
    let mut out = Vec::new();
    let mut idx = 0;
    for cancel_which in [0u32, 1] {
        for below in [false, true] {
            for cancel_at in 0..3 {
                idx += 1;
                let mut ops = vec![root(0, "x", 0x4E0), root(1, "y", 0x4E1), child_of(2, "m", &[0, 1])];
                let scoped = if below {
                    ops.push(child(3, "mc", 2));
                    3
                } else {
                    2
                };
                if cancel_at == 0 {
                    ops.push(cancel(cancel_which));
                }
                ops.push(scope(scoped));
                ops.push(lenter("before"));
                ops.push(levent("before.e"));
                ops.push(pop());
                if cancel_at == 1 {
                    ops.push(cancel(cancel_which));
                }
                ops.push(lenter("after"));
                ops.push(lprop("after.k", "after.v"));
                if cancel_at == 2 {
                    ops.push(cancel(cancel_which));
                }
                ops.push(lenter("inner"));
                ops.push(pop());
                ops.push(pop());
                ops.push(levent("top.e"));
                ops.push(lchild(4, "lc"));
                ops.push(finish(4));
                ops.push(pop());
                if below {
                    ops.push(finish(3));
                }
                ops.push(finish(2));
                ops.push(finish(0));
                ops.push(finish(1));
                out.push(Program::new(format!("C04-cancel-in-scope#{idx}")).worker("A", ops).collector(1, true, 0));
            }
        }
    }
    out
}

/// C06 / C10: every well-nested sequence of at most `max_len` local operations (enter a local span,
/// leave it, attach a property, attach an event) inside one local-parent scope: where an
/// attachment lands depends only on which local span is open at that moment, whatever was
/// recorded or closed just before.
pub fn local_sequence_programs(max_len: usize) -> Vec<Program> {
    // at least two attachments and one leave
    local_sequences(max_len, "C06-local-seq", |seq| seq.iter().filter(|s| **s >= 2).count() >= 2 && seq.contains(&1))
}

/// C02: the same sequences chosen for their shape: at least two local spans and one attachment
/// (which record is whose parent must not depend on what was attached where before).
pub fn local_tree_programs(max_len: usize) -> Vec<Program> {
    local_sequences(max_len, "C02-local-seq", |seq| seq.iter().filter(|s| **s == 0).count() >= 2 && seq.iter().any(|s| *s >= 2))
}

fn local_sequences(max_len: usize, family: &str, keep: impl Fn(&[u8]) -> bool) -> Vec<Program> {
    let mut out = Vec::new();
    // 0 = enter, 1 = leave, 2 = property, 3 = event
    let mut seqs: Vec<Vec<u8>> = vec![vec![]];
    let mut frontier: Vec<(Vec<u8>, usize)> = vec![(vec![], 0)];
    for _ in 0..max_len {
        let mut next = Vec::new();
        for (s, depth) in &frontier {
            for sym in 0..4u8 {
                if sym == 1 && *depth == 0 {
                    continue;
                }
                let mut t = s.clone();
                t.push(sym);
                let d = match sym {
                    0 => depth + 1,
                    1 => depth - 1,
                    _ => *depth,
                };
                next.push((t, d));
            }
        }
        seqs.extend(next.iter().map(|(s, _)| s.clone()));
        frontier = next;
    }
    for (idx, seq) in seqs.iter().enumerate() {
        if !keep(seq) {
            continue;
        }
        let mut ops = vec![root(0, "r", 0x6C), scope(0)];
        let mut depth = 0;
        for (i, sym) in seq.iter().enumerate() {
            match sym {
                0 => {
                    ops.push(lenter(&format!("l{i}")));
                    depth += 1;
                }
                1 => {
                    ops.push(pop());
                    depth -= 1;
                }
                2 => ops.push(lprop(&format!("k{i}"), &format!("v{i}"))),
                _ => ops.push(levent(&format!("e{i}"))),
            }
        }
        for _ in 0..depth {
            ops.push(pop());
        }
        ops.push(pop());
        ops.push(finish(0));
        out.push(Program::new(format!("{family}#{idx}")).worker("A", ops).collector(1, true, 0));
    }
    out
}

/// C06: attachments (by handle, through the local parent, at creation) to spans with parents in
/// different traces, and to spans below them.
pub fn multi_parent_attach_programs() -> Vec<Program> {
    let mut out = Vec::new();
    let mut idx = 0;
    // (`unsampled`: which of the roots is unsampled, usize::MAX for none)
    for (n_roots, unsampled) in [(2usize, usize::MAX), (3, usize::MAX), (2, 0), (2, 1), (3, 0), (3, 1), (3, 2)] {
        for route in 0..4 {
            for roots_finish_first in [false, true] {
                for on_descendant in [false, true] {
                    idx += 1;
                    let mut ops: Vec<Op> = Vec::new();
                    let parents: Vec<u32> = (0..n_roots as u32).collect();
                    for k in 0..n_roots {
                        ops.push(Op::Root { slot: k as u32, name: format!("r{k}"), trace: U128(0x600 + k as u128), remote_parent: 0, sampled: k != unsampled, props: vec![] });
                    }
                    ops.push(Op::Child { slot: 10, name: "m".into(), parents: parents.clone(), single: false, props: p("ck", "cv") });
                    let target = if on_descendant {
                        ops.push(child(11, "d", 10));
                        11
                    } else {
                        10
                    };
                    match route {
                        0 => {
                            ops.push(addprop(target, "hk", "hv"));
                            ops.push(addevent(target, "he"));
                        }
                        1 => {
                            ops.push(scope(target));
                            ops.push(levent("le"));
                            ops.push(lprop("lk", "lv"));
                            ops.push(pop());
                        }
                        2 => {
                            ops.push(scope(target));
                            ops.push(lenter("l"));
                            ops.push(levent("le"));
                            ops.push(lprop("lk", "lv"));
                            ops.push(pop());
                            ops.push(pop());
                            ops.push(addprop(target, "hk", "hv"));
                        }
                        _ => {
                            ops.push(addevent(target, "he1"));
                            ops.push(scope(target));
                            ops.push(lprop("lk", "lv"));
                            ops.push(pop());
                            ops.push(addevent(target, "he2"));
                        }
                    }
                    if on_descendant {
                        ops.push(finish(11));
                    }
                    if roots_finish_first {
                        // (the target then finishes after its roots: attachments become "may")
                        for k in 0..n_roots {
                            ops.push(finish(k as u32));
                        }
                        ops.push(finish(10));
                    } else {
                        ops.push(finish(10));
                        for k in 0..n_roots {
                            ops.push(finish(k as u32));
                        }
                    }
                    out.push(Program::new(format!("C06-multi#{idx}")).worker("A", ops));
                }
            }
        }
    }
    out
}

/// C02: many spans on one thread and on two threads: ids stay non-zero and distinct (the bulk
/// records are counted and their ids compared pairwise).
pub fn many_ids_programs() -> Vec<Program> {
    let mut one = vec![root(0, "r", 0x1D)];
    for _ in 0..7 {
        one.push(scope(0));
        one.push(Op::FillLocalSpans { leave: 0 });
        one.push(pop());
    }
    one.push(finish(0));
    let two_a = vec![root(0, "r", 0x1D), sig(1), scope(0), Op::FillLocalSpans { leave: 5000 }, pop(), wait(2), finish(0)];
    let two_b = vec![wait(1), scope(0), Op::FillLocalSpans { leave: 5000 }, pop(), sig(2)];
    // threads that follow one another (spawn, join, spawn): the second may inherit the first one's
    // thread-local storage block, but not its ids
    let seq_a = vec![root(0, "r", 0x1E), sig(1), wait(9), finish(0)];
    let mk = |k: u32, last: bool| {
        let mut v = vec![wait(1), scope(0), lenter(&format!("t{k}.a")), lenter(&format!("t{k}.b")), pop(), pop(), lchild(10 + k, &format!("t{k}.c")), finish(10 + k), pop()];
        if last {
            v.push(sig(9));
        }
        v
    };
    let successive = Program::new("C02-successive-threads#1")
        .worker("A", seq_a)
        .worker("T1", mk(1, false))
        .worker_after("T2", 1, mk(2, false))
        .worker_after("T3", 2, mk(3, false))
        .worker_after("T4", 3, mk(4, true))
        .collector(1, true, 0);
    // a thread that has opened 70000 scopes before (counters and epochs kept per thread have long
    // passed 16 bits), then an ordinary tree
    let tree = |ops: &mut Vec<Op>| {
        ops.extend([scope(0), lenter("a"), pop(), lenter("b"), lenter("c"), pop(), lprop("b.k", "b.v"), lenter("d"), levent("d.e"), pop(), pop(), lchild(5, "x"), finish(5), lenter("e"), pop(), pop()]);
    };
    let mut long_a = vec![Op::ChurnScopes { n: 70_000, slot: None }, root(0, "r", 0x1F)];
    tree(&mut long_a);
    long_a.push(finish(0));
    let mut long_b = vec![root(0, "r", 0x1F), Op::ChurnScopes { n: 70_000, slot: Some(0) }];
    tree(&mut long_b);
    long_b.push(finish(0));
    vec![
        Program::new("C02-long-lived-thread#1").worker("A", long_a).collector(1, true, 0),
        Program::new("C02-long-lived-thread#2").worker("A", long_b).collector(1, true, 0),
        Program::new("C02-many-ids#1").worker("A", one).collector(1, true, 0),
        Program::new("C02-many-ids#2").worker("A", two_a).worker("B", two_b).collector(1, true, 0),
        successive,
    ]
}

/// C18: a span, a child and a local span held open across a 1.1 s wait.
pub fn long_span_programs() -> Vec<Program> {
    let ops = vec![
        root(0, "r", 0x18C),
        child(1, "c", 0),
        scope(0),
        lenter("l"),
        Op::BusyWait { micros: 1_100_000 },
        levent("late"),
        Op::Elapsed { slot: 1 },
        pop(),
        pop(),
        finish(1),
        finish(0),
    ];
    let mut out = vec![Program::new("C18-long#1").worker("A", ops).collector(0, true, 0)];
    // events built ahead of time: the timestamp is when the event is recorded, not when the value
    // was made (it lies inside the local span it is recorded in)
    let pre = |n: &str| Op::LocalAddEvent { name: format!("pre.{n}"), props: vec![] };
    let build = |n: &str| Op::BuildEvent { name: format!("pre.{n}") };
    let ops = vec![
        build("top"),
        build("in-l"),
        build("in-m"),
        root(0, "r", 0x18D),
        scope(0),
        Op::BusyWait { micros: 200 },
        lenter("l"),
        pre("in-l"),
        build("late"),
        lenter("m"),
        pre("in-m"),
        pre("late"),
        pop(),
        pop(),
        pre("top"),
        pop(),
        finish(0),
    ];
    out.push(Program::new("C18-prebuilt#1").worker("A", ops).collector(0, true, 0));
    // local spans that are still running when their scope reaches its span limit: they end when
    // their guard is dropped, not when the scope ends
    for leave in [0usize, 1, 2] {
        let ops = vec![
            root(0, "r", 0x18E),
            scope(0),
            lenter("outer"),
            Op::FillLocalSpans { leave: leave + 1 },
            lenter("last"),
            Op::BusyWait { micros: 400 },
            pop(),
            Op::BusyWait { micros: 300 },
            pop(),
            Op::BusyWait { micros: 3_000 },
            pop(),
            finish(0),
        ];
        out.push(Program::new(format!("C18-at-limit#{leave}")).worker("A", ops).collector(0, true, 0));
    }
    out
}
