pub mod explore;
pub mod interp;
pub mod program;
pub mod sched;
