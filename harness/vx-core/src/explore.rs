//! One controlled execution of a program (`run_once`) and the depth-first enumeration of all
//! schedules with at most `bound` preemptions (`explore`).

use std::collections::hash_map::DefaultHasher;
use std::collections::HashSet;
use std::hash::Hash;
use std::hash::Hasher;
use std::sync::Arc;
use std::sync::OnceLock;
use std::time::Duration;
use std::time::Instant;

use fastrace::collector::Config;
use serde::Deserialize;
use serde::Serialize;

use crate::interp::actor_main;
use crate::interp::Obs;
use crate::interp::Rec;
use crate::interp::Tables;
use crate::program::*;
use crate::sched::sched;
use crate::sched::CaptureReporter;
use crate::sched::Ev;
use crate::sched::LogEv;
use crate::sched::Pending;

#[derive(Debug, Clone, Copy, Default, PartialEq, Eq, Hash, Serialize, Deserialize)]
pub struct Stats {
    pub active: usize,
    pub buffered: usize,
    pub danglings: usize,
    pub receivers: usize,
}

pub fn stats() -> Stats {
    let s = fastrace::verif::collector_stats();
    Stats {
        active: s.active_collectors,
        buffered: s.buffered_span_sets,
        danglings: s.danglings,
        receivers: s.registered_receivers,
    }
}

static CONFIG: OnceLock<(bool, bool)> = OnceLock::new();

/// Installs the capturing reporter (once per process) and parks the library's background
/// collector thread: it runs one cycle at start-up and then sleeps for the report interval, which
/// is set to about 30 years. All later cycles are driven by the harness.
pub fn init_process(cancelable: bool) {
    init_process_mode(cancelable, false)
}

/// `no_reporter`: no reporter is ever installed in this process (spans are not recording).
pub fn init_process_mode(cancelable: bool, no_reporter: bool) {
    let first = CONFIG.set((cancelable, no_reporter)).is_ok();
    assert!(first || *CONFIG.get().unwrap() == (cancelable, no_reporter), "one collector configuration per process");
    if !first {
        return;
    }
    let s = sched();
    if no_reporter {
        return;
    }
    let _ = s;
    // every cycle is driven by the harness: the collector thread started by set_reporter is kept
    // at the beginning of its loop (hook point BackgroundCycle)
    crate::sched::PARK_BACKGROUND.store(true, std::sync::atomic::Ordering::Relaxed);
    fastrace::set_reporter(
        CaptureReporter,
        Config::default().cancelable(cancelable).report_interval(Duration::from_secs(1_000_000_000)),
    );
}

pub fn cancelable() -> bool {
    CONFIG.get().expect("init_process").0
}

pub fn no_reporter() -> bool {
    CONFIG.get().expect("init_process").1
}

#[derive(Debug, Clone, Serialize, Deserialize)]
pub struct Decision {
    /// enabled actors in canonical order: the running actor first if still enabled, then ascending
    pub enabled: Vec<usize>,
    pub chosen: u32,
    pub running_enabled: bool,
    pub step_index: usize,
}

#[derive(Debug, Clone, PartialEq, Eq, Serialize, Deserialize)]
pub enum Outcome {
    Completed,
    Deadlock,
    Hang,
    Diverged(String),
    IllFormed(String),
}

#[derive(Debug, Clone, Serialize, Deserialize)]
pub struct BatchRec {
    pub seq: u64,
    pub actor: Option<usize>,
    pub records: Vec<Rec>,
    /// delivered by: "cycle" (a collector actor), "flush" (a program actor's flush()),
    /// "final-flush", "extra" (epilogue cycles after the final flush)
    pub phase: String,
}

#[derive(Debug, Clone, Serialize, Deserialize)]
pub struct Execution {
    pub cancelable: bool,
    #[serde(default)]
    pub no_reporter: bool,
    pub choices: Vec<u32>,
    pub decisions: Vec<Decision>,
    pub steps: Vec<(usize, Pending)>,
    pub log: Vec<LogEv>,
    pub batches: Vec<BatchRec>,
    pub obs: Vec<Obs>,
    pub stats_before: Stats,
    pub stats_after_flush: Stats,
    pub stats_final: Stats,
    pub outcome: Outcome,
    pub final_flush_begin_seq: u64,
    pub final_flush_end_seq: u64,
    pub state_hashes: Vec<u64>,
    pub preemptions: u32,
    pub wall_us: u64,
    pub unix_begin_ns: u64,
    pub unix_end_ns: u64,
    /// a tracing call was waiting for a lock of the collector while the collector was inside the
    /// user's `Reporter::report` (so the call is blocked for as long as the reporter takes)
    #[serde(default)]
    pub blocked_during_report: bool,
}

fn quiesce() -> Stats {
    // Run cycles on the controller thread until the retained state no longer changes.
    let mut prev = None;
    for _ in 0..8 {
        fastrace::verif::run_collector_cycle();
        let cur = stats();
        if prev == Some(cur) {
            return cur;
        }
        prev = Some(cur);
    }
    stats()
}

fn state_hash(w: &crate::sched::World) -> u64 {
    let mut h = DefaultHasher::new();
    for a in &w.actors {
        a.pc.hash(&mut h);
        a.steps.hash(&mut h);
        a.pending.hash(&mut h);
        a.finished.hash(&mut h);
        a.pushed.hash(&mut h);
    }
    let mut f: Vec<_> = w.flags.iter().copied().collect();
    f.sort();
    f.hash(&mut h);
    w.cycle_in_progress.hash(&mut h);
    w.drain_in_progress.hash(&mut h);
    w.drained.hash(&mut h);
    w.reports.len().hash(&mut h);
    w.reports.iter().map(|b| b.records.len()).sum::<usize>().hash(&mut h);
    h.finish()
}

pub const STEP_TIMEOUT: Duration = Duration::from_secs(5);
/// An execution that takes more scheduling steps than this is spinning (a retry loop that yields at
/// every iteration): treated like a hang.
pub const MAX_STEPS: usize = 200_000;

/// Runs `program` once under the schedule given by `prefix` (choice indices at the decisions,
/// default 0 afterwards). The caller must have called `init_process`.
pub fn may_block_program(program: &Program) -> bool {
    program.actors.iter().any(|a| a.ops.iter().any(|o| matches!(o, Op::SetReporter)))
}

fn _any_detached(w: &crate::sched::World) -> bool {
    w.actors.iter().any(|a| a.detached)
}

pub fn run_once(program: &Program, prefix: &[u32]) -> Execution {
    let s = sched();
    let t_start = Instant::now();
    assert!(program.actors.len() <= crate::sched::MAX_ACTORS);
    let stats_before = quiesce();
    let tables = Arc::new(Tables { t0: Some(Instant::now()), lazy_closures: program.name.contains("-lazy"), ..Default::default() });
    {
        let mut w = s.world();
        w.active = true;
        w.current = None;
        w.actors.clear();
        w.log.clear();
        w.seq = 0;
        w.flags.clear();
        w.cycle_in_progress = false;
        w.drain_in_progress = false;
        w.reports.clear();
        w.drained = 0;
        w.reporter_traces = program.name.contains("+rt");
        w.baseline_receivers = stats_before.receivers;
        w.draining_index = 0;
        for a in &program.actors {
            let mut st = crate::sched::ActorState::default();
            st.pending = Some(Pending::Start);
            if let ActorKind::Collector { atomic, pop_yields } = &a.kind {
                st.atomic_cycles = *atomic;
                st.pop_budget = *pop_yields;
            } else {
                // workers never drain; make that explicit
                st.atomic_cycles = true;
            }
            w.actors.push(st);
        }
    }
    let unix_begin_ns = crate::interp::unix_now_ns();
    let mut handles: Vec<Option<std::thread::JoinHandle<()>>> = Vec::new();
    let spawn_actor = |i: usize| {
        let a = program.actors[i].clone();
        let t = tables.clone();
        std::thread::Builder::new().name(format!("vx-{}", a.name)).spawn(move || actor_main(i, a, t)).unwrap()
    };
    for (i, a) in program.actors.iter().enumerate() {
        // an actor that follows another one gets its thread only after that one was joined
        handles.push(if a.after_exit_of.is_none() { Some(spawn_actor(i)) } else { None });
    }
    let mut spawned: Vec<bool> = program.actors.iter().map(|a| a.after_exit_of.is_none()).collect();

    let mut decisions = Vec::new();
    let mut choices = Vec::new();
    let mut steps = Vec::new();
    let mut state_hashes = Vec::new();
    let phash = hash_of(program);
    let mut running: Option<usize> = None;
    let mut preemptions = 0u32;
    let mut outcome = Outcome::Completed;
    let mut blocked_during_report = false;
    let may_block = may_block_program(program);
    let mut idle_since: Option<Instant> = None;
    loop {
        let w = {
            let t0 = Instant::now();
            loop {
                match s.wait_for_control(if may_block { Duration::from_millis(100) } else { STEP_TIMEOUT }) {
                    Ok(w) => break Some(w),
                    Err(_) => {
                        // an actor waiting for a mutex inside set_reporter: let the holder run
                        if may_block && s.try_detach_current() {
                            continue;
                        }
                        if t0.elapsed() >= STEP_TIMEOUT {
                            break None;
                        }
                    }
                }
            }
        };
        let Some(w) = w else {
            outcome = Outcome::Hang;
            break;
        };
        // join actors that finished (their thread-local destructors run before anyone else moves)
        let to_join: Vec<usize> =
            (0..w.actors.len()).filter(|&i| w.actors[i].finished && !w.actors[i].joined).collect();
        drop(w);
        for i in to_join {
            if let Some(h) = handles[i].take() {
                let _ = h.join();
            }
            let mut w = s.world();
            w.actors[i].joined = true;
            w.push_log(None, Ev::Joined { actor: i });
        }
        // spawn the actors whose predecessor's thread is gone now
        for i in 0..program.actors.len() {
            if !spawned[i] {
                let pred = program.actors[i].after_exit_of.unwrap();
                if s.world().actors[pred].joined {
                    handles[i] = Some(spawn_actor(i));
                    spawned[i] = true;
                }
            }
        }
        let mut w = s.world();
        if may_block {
            // An actor that was left waiting for a mutex inside set_reporter rejoins the schedule at
            // the first decision after the mutex was released: while a parked collector actor holds
            // the collector's mutex it stays away (a short grace period for a call that is past
            // the mutex already); otherwise it is on its way to its next scheduling point.
            let t0 = Instant::now();
            let mut gave_up = false;
            while w.actors.iter().any(|a| a.detached) {
                let limit = if w.cycle_in_progress { Duration::from_millis(5) } else { STEP_TIMEOUT };
                if t0.elapsed() >= limit {
                    gave_up = !w.cycle_in_progress;
                    break;
                }
                w = s.wait_change(w, Duration::from_millis(1));
            }
            if gave_up {
                outcome = Outcome::Hang;
                break;
            }
        }
        if w.actors.iter().all(|a| a.finished) {
            break;
        }
        let mut enabled: Vec<usize> = (0..w.actors.len()).filter(|&i| spawned[i] && w.enabled(i)).collect();
        if w.actors.iter().any(|a| matches!(a.pending, Some(Pending::Report)))
            && (0..w.actors.len()).any(|i| matches!(w.actors[i].pending, Some(Pending::RegisterReceiver)) && !w.enabled(i))
        {
            blocked_during_report = true;
        }
        if enabled.is_empty() {
            if may_block {
                // an actor still inside set_reporter (or the start-up cycle of the collector thread
                // it spawned, which holds the collector's mutex for a moment): wait for it
                let since = *idle_since.get_or_insert_with(Instant::now);
                if since.elapsed() < STEP_TIMEOUT {
                    let _w = s.wait_change(w, Duration::from_millis(5));
                    continue;
                }
                outcome = if _any_detached(&w) { Outcome::Hang } else { Outcome::Deadlock };
                break;
            }
            outcome = Outcome::Deadlock;
            break;
        }
        idle_since = None;
        // Invisible steps commute with everything and disable nobody: starting an actor (it runs
        // thread-local code up to its first real point) and the exit of a collector actor (its
        // thread owns no command queue). Run them at once, without a decision.
        if let Some(&inv) = enabled.iter().find(|&&i| {
            matches!(w.actors[i].pending, Some(Pending::Start))
                || (matches!(w.actors[i].pending, Some(Pending::Exit))
                    && matches!(program.actors[i].kind, ActorKind::Collector { .. }))
        }) {
            steps.push((inv, w.actors[inv].pending.clone().unwrap()));
            s.grant(w, inv);
            continue;
        }
        let running_enabled = running.map_or(false, |r| enabled.contains(&r));
        if running_enabled {
            let r = running.unwrap();
            enabled.retain(|&x| x != r);
            enabled.insert(0, r);
        }
        state_hashes.push(state_hash(&w) ^ phash);
        let chosen = if enabled.len() > 1 {
            let d = decisions.len();
            let c = if d < prefix.len() { prefix[d] } else { 0 };
            if c as usize >= enabled.len() {
                outcome = Outcome::Diverged(format!(
                    "decision {d}: choice {c} out of range (enabled {enabled:?})"
                ));
                break;
            }
            if running_enabled && c != 0 {
                preemptions += 1;
            }
            decisions.push(Decision {
                enabled: enabled.clone(),
                chosen: c,
                running_enabled,
                step_index: steps.len(),
            });
            choices.push(c);
            enabled[c as usize]
        } else {
            enabled[0]
        };
        steps.push((chosen, w.actors[chosen].pending.clone().unwrap()));
        if steps.len() > MAX_STEPS {
            outcome = Outcome::Hang;
            break;
        }
        running = Some(chosen);
        s.grant(w, chosen);
    }

    let mut final_flush_begin_seq = 0;
    let mut final_flush_end_seq = 0;
    let mut stats_after_flush = Stats::default();
    let mut stats_final = Stats::default();
    let mut n_program_batches = 0;
    let mut n_flush_batches = 0;
    if outcome == Outcome::Completed {
        n_program_batches = s.world().reports.len();
        {
            let mut w = s.world();
            w.push_log(None, Ev::Note("final-flush-begin".into()));
            final_flush_begin_seq = w.seq;
        }
        fastrace::flush();
        {
            let mut w = s.world();
            w.push_log(None, Ev::Note("final-flush-end".into()));
            final_flush_end_seq = w.seq;
        }
        n_flush_batches = s.world().reports.len();
        stats_after_flush = stats();
        // extra cycles: anything that still comes out now is late
        for _ in 0..3 {
            fastrace::verif::run_collector_cycle();
        }
        stats_final = stats();
        // leftovers mean the program did not release everything it created
        let leftover = tables.spans.lock().unwrap().len() + tables.futs.lock().unwrap().len();
        if leftover > 0 {
            outcome = Outcome::IllFormed(format!("{leftover} spans/adapters left in the tables"));
            let t = tables.clone();
            std::thread::spawn(move || {
                t.futs.lock().unwrap().clear();
                t.spans.lock().unwrap().clear();
                t.sets.lock().unwrap().clear();
            })
            .join()
            .ok();
            fastrace::flush();
        }
    }
    let unix_end_ns = crate::interp::unix_now_ns();
    let mut w = s.world();
    w.active = false;
    let log = std::mem::take(&mut w.log);
    let reports = std::mem::take(&mut w.reports);
    drop(w);
    let batches: Vec<BatchRec> = reports
        .into_iter()
        .enumerate()
        .map(|(i, b)| BatchRec {
            seq: b.seq,
            actor: b.actor,
            records: b.records.iter().map(Rec::from_record).collect(),
            phase: if i < n_program_batches {
                if b.actor.map_or(false, |a| matches!(program.actors[a].kind, ActorKind::Collector { .. })) {
                    "cycle".into()
                } else {
                    "flush".into()
                }
            } else if i < n_flush_batches {
                "final-flush".into()
            } else {
                "extra".into()
            },
        })
        .collect();
    let obs = std::mem::take(&mut *tables.obs.lock().unwrap());
    if let Some(o) = obs.iter().find_map(|o| match &o.val {
        crate::interp::ObsVal::IllFormed(e) => Some(e.clone()),
        _ => None,
    }) {
        if outcome == Outcome::Completed {
            outcome = Outcome::IllFormed(o);
        }
    }
    Execution {
        cancelable: cancelable(),
        no_reporter: no_reporter(),
        choices,
        decisions,
        steps,
        log,
        batches,
        obs,
        stats_before,
        stats_after_flush,
        stats_final,
        outcome,
        final_flush_begin_seq,
        final_flush_end_seq,
        state_hashes,
        preemptions,
        wall_us: t_start.elapsed().as_micros() as u64,
        unix_begin_ns,
        unix_end_ns,
        blocked_during_report,
    }
}

#[derive(Debug, Clone, Default, Serialize, Deserialize)]
pub struct ExploreStats {
    pub executions: u64,
    pub transitions: u64,
    pub decisions: u64,
    pub max_preemptions_seen: u32,
    pub capped: bool,
    pub aborted: Option<String>,
}

pub struct ExploreCfg {
    /// maximum number of preemptions; `None`: unbounded (all interleavings)
    pub bound: Option<u32>,
    pub max_execs: u64,
    pub deadline: Option<Instant>,
}

/// Depth-first enumeration of all schedules of `program` below `root_prefix` with at most
/// `cfg.bound` preemptions. `visit` sees every execution; it returns false to stop.
pub fn explore(
    program: &Program,
    cfg: &ExploreCfg,
    root_prefix: Vec<u32>,
    states: &mut HashSet<u64>,
    mut visit: impl FnMut(&Execution) -> bool,
) -> ExploreStats {
    let mut st = ExploreStats::default();
    let mut stack: Vec<Vec<u32>> = vec![root_prefix.clone()];
    let root_len = root_prefix.len();
    while let Some(prefix) = stack.pop() {
        if st.executions >= cfg.max_execs || cfg.deadline.map_or(false, |d| Instant::now() > d) {
            st.capped = true;
            break;
        }
        let mut ex = run_once(program, &prefix);
        // Programs that call set_reporter have an actor wait on a real mutex; when it rejoins the
        // schedule depends on real time in rare cases. A run that did not follow the prefix is
        // repeated, and the branch is given up (and counted as a cap) if it never does.
        if may_block_program(program) {
            let mut tries = 0;
            while tries < 5
                && matches!(ex.outcome, Outcome::Completed | Outcome::Diverged(_))
                && (matches!(ex.outcome, Outcome::Diverged(_)) || ex.choices.len() < prefix.len() || ex.choices[..prefix.len()] != prefix[..])
            {
                tries += 1;
                ex = run_once(program, &prefix);
            }
            if matches!(ex.outcome, Outcome::Diverged(_)) || ex.choices.len() < prefix.len() || ex.choices[..prefix.len()] != prefix[..] {
                st.capped = true;
                continue;
            }
        }
        st.executions += 1;
        st.transitions += ex.steps.len() as u64;
        st.decisions += ex.decisions.len() as u64;
        st.max_preemptions_seen = st.max_preemptions_seen.max(ex.preemptions);
        for h in &ex.state_hashes {
            states.insert(*h);
        }
        match &ex.outcome {
            Outcome::Hang | Outcome::Deadlock | Outcome::Diverged(_) => {
                // the process cannot continue (threads are stuck); let the caller report it
                visit(&ex);
                st.aborted = Some(format!("{:?}", ex.outcome));
                break;
            }
            _ => {}
        }
        // the replayed prefix must have been followed exactly
        if ex.choices.len() < prefix.len() || ex.choices[..prefix.len()] != prefix[..] {
            st.aborted = Some(format!("divergence: asked {:?}, got {:?}", prefix, ex.choices));
            visit(&ex);
            break;
        }
        // children: alternatives at decisions at or beyond the end of this prefix (for the root
        // job: beyond the root prefix)
        let from = prefix.len().max(root_len);
        let mut cost = 0u32;
        let mut children = Vec::new();
        for (i, d) in ex.decisions.iter().enumerate() {
            if i >= from {
                let alt_cost = cost + if d.running_enabled { 1 } else { 0 };
                if cfg.bound.map_or(true, |b| alt_cost <= b) {
                    for alt in 1..d.enabled.len() as u32 {
                        let mut p = ex.choices[..i].to_vec();
                        p.push(alt);
                        children.push(p);
                    }
                }
            }
            if d.running_enabled && d.chosen != 0 {
                cost += 1;
            }
        }
        // depth-first: explore the deepest alternatives first
        stack.extend(children);
        if !visit(&ex) {
            break;
        }
    }
    st
}

pub fn hash_of<T: Hash>(t: &T) -> u64 {
    let mut h = DefaultHasher::new();
    t.hash(&mut h);
    h.finish()
}
